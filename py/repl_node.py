"""Runs the real src/scripts/repl_server.py, unmodified, with `socket` replaced by a fake whose
recv/send ask the simulator (the parent process) over a control pipe and block until answered.
The Python process therefore moves only when the simulator answers: together with the Rust
client it forms one deterministic co-routine system.

control protocol on fds 0 (answers) / 1 (requests), all integers big-endian u32:
  request  'R' n            -> answer: len, bytes          (len == 0: peer closed)
  request  'S' len bytes    -> answer: 4, accepted count   (send() may accept fewer bytes)
  request  'C' 0            -> no answer (socket closed)
usage: repl_node.py /repo/src/scripts/repl_server.py MODULE_NAME
"""
import os
import struct
import sys
import types


def _read_exact(n):
    buf = b''
    while len(buf) < n:
        chunk = os.read(0, n - len(buf))
        if not chunk:
            os._exit(0)          # the simulator went away
        buf += chunk
    return buf


def _request(op, payload=b'', n=0):
    if op == b'R':
        os.write(1, op + struct.pack('>I', n))
    else:
        os.write(1, op + struct.pack('>I', len(payload)) + payload)
    if op == b'C':
        return b''
    (ln,) = struct.unpack('>I', _read_exact(4))
    return _read_exact(ln)


class FakeConn:
    def recv(self, n, *flags):
        if n == 0:
            return b''           # as a real socket does, without waiting
        return _request(b'R', n=n)

    def send(self, data, *flags):
        (k,) = struct.unpack('>I', _request(b'S', bytes(data)))
        return k

    def sendall(self, data, *flags):
        data = bytes(data)
        while data:
            k = self.send(data)
            data = data[k:]

    def close(self):
        _request(b'C')

    def settimeout(self, *a):
        pass


class FakeListener:
    def bind(self, addr):
        pass

    def listen(self, n=1):
        pass

    def accept(self):
        return (FakeConn(), ('127.0.0.1', 0))

    def close(self):
        pass

    def setsockopt(self, *a):
        pass


fake = types.ModuleType('socket')
fake.socket = lambda *a, **k: FakeListener()
fake.AF_INET = 2
fake.SOCK_STREAM = 1
sys.modules['socket'] = fake

src = open(sys.argv[1]).read().replace('__PORT__', '0').replace('__MODULE__', sys.argv[2])
sys.stdout = sys.stderr          # nothing but the control protocol may reach fd 1
exec(compile(src, 'repl_server.py', 'exec'), {'__name__': '__main__'})
