"""C25 layer 1, Python side: the MessageStream class of src/scripts/repl_server.py (taken from
the file as it is) against a reference codec, over every split of short frames into recv chunks
and seeded splits of long ones; send() accepts a seeded number of bytes per call.
usage: codec_check.py SERVER_PY SEED COUNT   -> one JSON line"""
import json
import re
import sys

sys.path.insert(0, __file__.rsplit('/', 2)[0] + '/lib')
from rng import SplitMix  # noqa: E402


def load_class(path):
    src = open(path).read()
    m = re.search(r"^class MessageStream:.*?(?=^\S)", src, re.S | re.M)
    ns = {}
    exec(m.group(0), ns)
    return ns['MessageStream']


class FakeSock:
    def __init__(self, data=b'', cuts=()):
        self.data = bytearray(data)
        self.cuts = list(cuts)
        self.sent = bytearray()
        self.calls = 0

    def _k(self, want):
        if self.cuts:
            return max(1, min(want, self.cuts.pop(0)))
        return want

    def recv(self, n):
        self.calls += 1
        if not self.data:
            return b''
        k = self._k(min(n, len(self.data)))
        out = bytes(self.data[:k])
        del self.data[:k]
        return out

    def send(self, b):
        self.calls += 1
        k = self._k(len(b))
        self.sent += bytes(b[:k])
        return k

    def sendall(self, b):
        b = bytes(b)
        while b:
            k = self.send(b)
            b = b[k:]

    def close(self):
        pass


def ref_encode(inst, data):
    return bytes([inst]) + len(data).to_bytes(2, 'big') + data


def case(MS, inst, text, cuts):
    data = text.encode()
    # encode
    ws = FakeSock(cuts=cuts)
    try:
        MS(ws).send_msg(inst, text)
    except Exception as e:
        return {"clause": "encode_error", "len": len(data), "error": repr(e)[:200]}
    wire = bytes(ws.sent)
    if len(data) < 65535 and wire != ref_encode(inst, data):
        return {"clause": "encode", "len": len(data), "cuts": cuts[:10], "wrote": len(wire)}
    # decode the same bytes, cut differently
    rs = FakeSock(wire, cuts=list(reversed(cuts)))
    try:
        got = MS(rs).recv_msg()
    except Exception as e:
        return {"clause": "decode_error", "len": len(data), "cuts": cuts[:10], "error": repr(e)[:200]}
    if got != (inst, text) or rs.data:
        return {"clause": "decode", "len": len(data), "cuts": cuts[:10], "got_len": len(got[1]), "left_over": len(rs.data)}
    return None


def main():
    MS = load_class(sys.argv[1])
    seed, count = int(sys.argv[2]), int(sys.argv[3])
    viol = []
    evals = 0
    distinct = set()
    exhaustive = 0
    for ln in range(0, 10):
        text = ''.join(chr(ord('a') + i) for i in range(ln))
        total = ln + 3
        for mask in range(1 << (total - 1)):
            cuts = []
            run = 1
            for i in range(total - 1):
                if mask & (1 << i):
                    cuts.append(run)
                    run = 1
                else:
                    run += 1
            cuts.append(run)
            evals += 1
            exhaustive += 1
            distinct.add((ln, mask, 0))
            v = case(MS, 1, text, cuts)
            if v and len(viol) < 20:
                viol.append(v)
    sizes = [0, 1, 2, 255, 256, 1000, 65534, 65535, 65536, 65537, 131070, 131071, 200000]
    samples = []
    for i in range(count):
        r = SplitMix.derive(seed, "C25/pycodec", i)
        ln = r.pick(sizes) if r.chance(0.6) else r.below(210000)
        unit = r.pick(["a", "é", "日", "\U0001F600"])
        text = (unit * (ln // len(unit.encode()) + 1)).encode()[:ln].decode('utf-8', 'ignore')
        inst = r.pick([1, 2, 3, 4, 5, 6])
        cuts = [(1 + r.below(4)) if r.chance(0.5) else (1 + r.below(70000)) for _ in range(r.below(40))]
        evals += 1
        distinct.add((len(text.encode()), r.next(), 1))
        if len(samples) < 3:
            samples.append({"inst": inst, "bytes": len(text.encode()), "cuts": cuts[:8]})
        v = case(MS, inst, text, cuts)
        if v and len(viol) < 20:
            viol.append(v)
    print(json.dumps({"harness": "py_codec", "class": "done", "evaluations": evals, "distinct_nontrivial": len(distinct),
                      "exhaustive_short_frames": exhaustive, "violations": viol, "samples": samples}))


main()
