"""C15, fault-free half: CPython's unmarshaller must reconstruct, from a complete image, exactly
the constants the harness put in (same types; NaN by bit pattern, -0.0 by sign).
usage: pyc_oracle.py LIST.json   (a list of [image path, expectation path]) -> one JSON line"""
import json
import marshal
import struct
import sys
import types


def check(obj, exp, path):
    t = exp["t"]
    if t == "int":
        if type(obj) is not int or obj != int(exp["v"]):
            return f"{path}: int {exp['v']} read back as {type(obj).__name__} {str(obj)[:40]}"
    elif t == "float":
        if type(obj) is not float or struct.pack("<d", obj).hex() != bytes.fromhex(exp["bits"])[::-1].hex():
            return f"{path}: float bits {exp['bits']} read back as {obj!r}"
    elif t == "str":
        if type(obj) is not str or obj != exp["v"]:
            return f"{path}: str of {len(exp['v'])} chars read back as {type(obj).__name__} {str(obj)[:30]!r}"
    elif t == "bool":
        if type(obj) is not bool or obj != exp["v"]:
            return f"{path}: bool {exp['v']} read back as {obj!r}"
    elif t == "none":
        if obj is not None:
            return f"{path}: None read back as {obj!r}"
    elif t == "tuple":
        if type(obj) is not tuple or len(obj) != len(exp["v"]):
            return f"{path}: tuple of {len(exp['v'])} read back as {type(obj).__name__} of {len(obj) if hasattr(obj, '__len__') else '?'}"
        for i, (o, e) in enumerate(zip(obj, exp["v"])):
            r = check(o, e, f"{path}[{i}]")
            if r:
                return r
    elif t == "code":
        if not isinstance(obj, types.CodeType):
            return f"{path}: code object read back as {type(obj).__name__}"
        if obj.co_name != exp["name"]:
            return f"{path}: co_name {exp['name']} read back as {obj.co_name}"
        if len(obj.co_consts) != len(exp["consts"]):
            return f"{path}: {len(exp['consts'])} constants read back as {len(obj.co_consts)}"
        for i, (o, e) in enumerate(zip(obj.co_consts, exp["consts"])):
            r = check(o, e, f"{path}.co_consts[{i}]")
            if r:
                return r
    return None


def main():
    pairs = json.load(open(sys.argv[1]))
    out = []
    consts = 0
    for img, expf in pairs:
        data = open(img, "rb").read()
        try:
            obj = marshal.loads(data[16:])
        except Exception as e:
            out.append({"image": img, "clause": "cpython_rejects", "detail": repr(e)[:200]})
            continue
        exp = json.load(open(expf))
        consts += json.dumps(exp).count('"t"')
        r = check(obj, exp, "code")
        if r:
            out.append({"image": img, "clause": "constant_value", "detail": r})
    print(json.dumps({"class": "done", "images": len(pairs), "values_compared": consts, "violations": out}))


main()
