"""C28 (document copy == client's copy) and C29 (incremental diagnostics == fresh diagnostics) on the
whole real language server under the simulator (`simels`)."""

import json
import os
import time

from common import (SCRATCH, MOUNT_BASE, HarnessError, Pool, Report, alpha_rename, bin_path, build, load_known, log,
                    norm_text, run_json, sha, write_evidence, write_replay, PY_EXE)
from rng import SplitMix

SIMELS = bin_path("simels")
MOUNT_WS = os.path.join(MOUNT_BASE, "mnt")
MOUNT_ERG = os.path.join(MOUNT_BASE, "ergmnt")

COMPONENTS_REAL = [
    "els::Server: dispatcher, 26 request worker threads, auto-diagnostics poller, workspace-diagnostics thread, "
    "(in ~10 % of runs) the std-lib completion loader thread",
    "els FileCache / incremental_update / pos_to_byte_index, erg_common VFS, ASTDiff/HIRDiff, the whole compiler behind check_file",
    "std::sync::mpsc channels between dispatcher and workers, parking_lot locks inside Shared",
]
COMPONENTS_STUBBED = [
    "OS scheduler -> baton scheduler; sleeps/polls (500 ms auto-diagnostics, 10 ms yields) -> discrete-event clock",
    "blocking mpsc recv in workers -> polling in simulated time woken by a notify at every send",
    "the LSP client -> harness thread calling Server::dispatch, answering workspace/configuration and workDoneProgress/create",
    "stdin/stdout transport -> direct dispatch + mpsc output channel (an ordered reliable stream, as LSP presumes)",
]


def uri_of(name):
    return "file://" + MOUNT_WS + "/" + name


# ------------------------------------------------------------------------------------
# the client's document: UTF-16 positions, offsets past the end of a line mean the end of it
# ------------------------------------------------------------------------------------

def u16len(s):
    return sum(2 if ord(c) > 0xFFFF else 1 for c in s)


def pos_to_index(text, line, ch):
    lines = text.split("\n")
    if line >= len(lines):
        return len(text)
    off = sum(len(l) + 1 for l in lines[:line])
    l = lines[line]
    u = 0
    i = 0
    while i < len(l) and u < ch:
        u += 2 if ord(l[i]) > 0xFFFF else 1
        i += 1
    return off + i


def apply_changes(text, changes):
    for c in changes:
        (l0, c0, l1, c1) = c["range"]
        a = pos_to_index(text, l0, c0)
        b = pos_to_index(text, l1, c1)
        text = text[:a] + c["text"] + text[b:]
    return text


def lsp_range(r):
    return {"start": {"line": r[0], "character": r[1]}, "end": {"line": r[2], "character": r[3]}}


# ------------------------------------------------------------------------------------
# scripts
# ------------------------------------------------------------------------------------

INIT = [
    {"request": {"jsonrpc": "2.0", "id": 9000, "method": "initialize",
                 "params": {"capabilities": {"textDocument": {"publishDiagnostics": {}}}}}},
    {"send": {"jsonrpc": "2.0", "method": "initialized", "params": {}}},
]


def did_open(name, ver, text):
    return {"send": {"jsonrpc": "2.0", "method": "textDocument/didOpen",
                     "params": {"textDocument": {"uri": uri_of(name), "languageId": "erg", "version": ver, "text": text}}}}


def did_change(name, ver, changes):
    return {"send": {"jsonrpc": "2.0", "method": "textDocument/didChange",
                     "params": {"textDocument": {"uri": uri_of(name), "version": ver},
                                "contentChanges": [{"range": lsp_range(c["range"]), "text": c["text"]} for c in changes]}}}


def did_save(name):
    return {"send": {"jsonrpc": "2.0", "method": "textDocument/didSave",
                     "params": {"textDocument": {"uri": uri_of(name)}}}}


def req(kind, rid, name, line, ch, wait):
    method = {"hover": "textDocument/hover", "completion": "textDocument/completion",
              "symbols": "textDocument/documentSymbol", "tokens": "textDocument/semanticTokens/full",
              "inlay": "textDocument/inlayHint", "folding": "textDocument/foldingRange"}[kind]
    params = {"textDocument": {"uri": uri_of(name)}}
    if kind in ("hover", "completion"):
        params["position"] = {"line": line, "character": ch}
    if kind == "completion":
        params["context"] = {"triggerKind": 1}
    if kind == "inlay":
        params["range"] = lsp_range([0, 0, 10_000, 0])
    return {"request" if wait else "send": {"jsonrpc": "2.0", "id": rid, "method": method, "params": params}}


LINES = [
    "x = 1", "y = x + 1", 's = "ab"', 's2 = "\U0001F600ab"', "# é comment", 'print! "日本語"',
    "f a = a + 1", "z = f 2", 'u = "\U0001F600\U0001F601"', "", "i = 10", 'w = "aé\U0001F600z"', "print! x",
]
INSERTS = ["", "", "a", "Z", "\n", "x = 2\n", "é", "\U0001F600", ".", "  ", "q = 3", '"', "1", "\n\n", "ab\ncd"]


def gen_c28(seed, idx):
    """a history as a list of events; `build_c28` turns it into a script plus expected snapshots"""
    r = SplitMix.derive(seed, "C28", idx)
    ndocs = r.pick([1, 1, 1, 2, 2, 3])
    names = ["a.er", "b.er", "c.er"][:ndocs]
    docs = {}
    for k, n in enumerate(names):
        lines = [r.pick(LINES) for _ in range(r.range(0, 7))]
        if k == 0 and ndocs > 1 and r.chance(0.5):
            lines.insert(0, 'b = import "b"')
        text = "\n".join(lines)
        if r.chance(0.7) and text:
            text += "\n"
        if r.chance(0.15):
            text = ""
        disk = text if r.chance(0.6) else "\n".join(r.pick(LINES) for _ in range(r.range(0, 4))) + "\n"
        docs[n] = {"open": text, "disk": disk}
    events = [["wait", r.pick([0, 0, 50, 100, 600])]]
    cur = {}
    think = [0, 0, 0, 0, 1, 5, 20, 100, 450, 520, 700]
    for n in names:
        events.append(["open", n, docs[n]["open"]])
        cur[n] = docs[n]["open"]
        events.append(["wait", r.pick(think)])
    nnotif = r.range(1, 30) if r.chance(0.7) else r.range(1, 5)
    for _ in range(nnotif):
        n = r.pick(names)
        if r.chance(0.25):
            kind = r.pick(["hover", "hover", "completion", "symbols", "tokens", "inlay", "folding"])
            lines = cur[n].split("\n")
            ln = r.below(len(lines))
            events.append(["req", kind, n, ln, r.range(0, max(0, u16len(lines[ln])))])
        changes = []
        text = cur[n]
        for _c in range(r.pick([1, 1, 1, 2, 3])):
            lines = text.split("\n")
            l0 = r.below(len(lines))
            l1 = l0 if r.chance(0.75) else min(len(lines) - 1, l0 + r.range(0, 2))

            def col(line):
                n16 = u16len(lines[line])
                k = r.below(10)
                if k == 0:
                    return n16                   # end of line
                if k == 1:
                    return n16 + r.range(1, 90)  # past the end: means the end of the line
                if k == 2:
                    return 0
                # a valid code-unit boundary (never inside a surrogate pair)
                bounds = [0]
                for ch in lines[line]:
                    bounds.append(bounds[-1] + (2 if ord(ch) > 0xFFFF else 1))
                return r.pick(bounds)
            c0 = col(l0)
            c1 = col(l1)
            if l0 == l1 and c1 < c0:
                c0, c1 = c1, c0
            if r.chance(0.3):
                l1, c1 = l0, c0                  # pure insertion
            ch = {"range": [l0, c0, l1, c1], "text": r.pick(INSERTS)}
            if r.chance(0.08):
                last = len(lines) - 1            # end-of-document insertion
                ch = {"range": [last, u16len(lines[last]), last, u16len(lines[last])], "text": r.pick(INSERTS)}
            changes.append(ch)
            text = apply_changes(text, [ch])
        events.append(["change", n, r.pick([1, 1, 1, 2]), changes])
        cur[n] = text
        if r.chance(0.1):
            events.append(["save", n])
        events.append(["wait", r.pick(think)])
    return {"docs": {n: docs[n]["disk"] for n in names}, "names": names, "events": events,
            "autosave": r.pick(["off", "off", "afterDelay"]), "deepcompletion": r.chance(0.1)}


def valid_c28(hist):
    """after dropping events a change may point outside its document: such a history is not one
    the property talks about (the generator never produces it)"""
    cur = {}
    for e in hist["events"]:
        if e[0] == "open":
            cur[e[1]] = e[2]
        elif e[0] == "change":
            if e[1] not in cur:
                return False
            text = cur[e[1]]
            for ch in e[3]:
                lines = text.split("\n")
                l0, c0, l1, c1 = ch["range"]
                if l0 >= len(lines) or l1 >= len(lines) or (l0, c0) > (l1, c1):
                    return False
                # not inside a surrogate pair
                for (l, c) in ((l0, c0), (l1, c1)):
                    bounds = [0]
                    for x in lines[l]:
                        bounds.append(bounds[-1] + (2 if ord(x) > 0xFFFF else 1))
                    if c <= bounds[-1] and c not in bounds:
                        return False
                text = apply_changes(text, [ch])
            cur[e[1]] = text
        elif e[0] == "save" and e[1] not in cur:
            return False
    return True


def build_c28(hist):
    steps = list(INIT)
    cur = {}
    ver = {}
    expected = []
    rid = 100
    for e in hist["events"]:
        if e[0] == "wait":
            if e[1]:
                steps.append({"wait_ms": e[1]})
                if cur:
                    # the copies must also be right some time after a notification (a background
                    # thread may write a stale text back), not only directly after it
                    steps.append({"snapshot": [uri_of(n) for n in cur]})
                    for n in cur:
                        expected.append((len(steps) - 1, n, cur[n]))
        elif e[0] == "open":
            steps.append(did_open(e[1], 1, e[2]))
            cur[e[1]] = e[2]
            ver[e[1]] = 1
            steps.append({"snapshot": [uri_of(e[1])]})
            expected.append((len(steps) - 1, e[1], cur[e[1]]))
        elif e[0] == "change":
            ver[e[1]] += e[2]
            steps.append(did_change(e[1], ver[e[1]], e[3]))
            cur[e[1]] = apply_changes(cur[e[1]], e[3])
            steps.append({"snapshot": [uri_of(e[1])]})
            expected.append((len(steps) - 1, e[1], cur[e[1]]))
        elif e[0] == "save":
            steps.append(did_save(e[1]))
        elif e[0] == "req":
            if e[2] in cur:
                steps.append(req(e[1], rid, e[2], e[3], e[4], wait=False))
                rid += 1
    steps.append({"wait_ms": 1600})
    steps.append({"snapshot": [uri_of(n) for n in cur]})
    for n in cur:
        expected.append((len(steps) - 1, n, cur[n]))
    first = hist["names"][0]
    steps.append(req("hover", 9999, first, 0, 0, wait=True))
    script = {"steps": steps, "autosave": hist["autosave"], "deepcompletion": hist["deepcompletion"]}
    return {"docs": hist["docs"], "script": script, "expected": expected, "final": dict(cur)}


# ------------------------------------------------------------------------------------
# running
# ------------------------------------------------------------------------------------

def run_simels(work, w, d, extra, timeout=300):
    """work: {docs: {name: disk text}, script}"""
    ws = os.path.join(d, "ws")
    ep = os.path.join(d, "ergpath")
    os.makedirs(ws, exist_ok=True)
    os.makedirs(ep, exist_ok=True)
    for f in os.listdir(ws):
        os.remove(os.path.join(ws, f))
    lib = os.path.join(ep, "lib")
    if not os.path.islink(lib):
        os.symlink(os.path.expanduser("~/.erg/lib"), lib)
    logf = os.path.join(ep, "els.log")
    if os.path.exists(logf):
        os.remove(logf)
    for n, t in work["docs"].items():
        with open(os.path.join(ws, n), "w", encoding="utf-8") as fh:
            fh.write(t)
    sp = os.path.join(d, "script.json")
    with open(sp, "w") as fh:
        json.dump(work["script"], fh)
    os.makedirs(MOUNT_WS, exist_ok=True)
    os.makedirs(MOUNT_ERG, exist_ok=True)
    argv = [SIMELS, "--dir", ws, "--mount-at", MOUNT_WS, "--ergpath", ep, "--ergpath-at", MOUNT_ERG,
            "--script", sp, "--pin", str(w), "--python", PY_EXE] + extra
    env = dict(os.environ)
    env["MALLOC_PERTURB_"] = "165"
    res, rc = run_json(argv, timeout=timeout, env=env)
    if res.get("class") == "wall_timeout":
        # not a verdict yet: with deep completion on, a schedule that favours the `load_modules`
        # thread analyses the whole standard-library declaration tree (minutes of CPU on a loaded
        # machine). Only a run that does not end within half an hour counts as not terminating.
        log(f"      (slow run, repeated with a 30 min limit: {' '.join(extra)[:120]})")
        res, rc = run_json(argv, timeout=1800, env=env)
    if res.get("class") in ("done", "panic") and not res.get("mounted"):
        raise HarnessError("simels: bind mount failed")
    return res


def panic_detail(res):
    """lock time-outs are identified by who waited where (thread name @ source file of the
    Shared::borrow caller); other panics by their messages"""
    import re
    lt = set()
    for name, data in res.get("probe_log", []):
        if name == "lock_timeout":
            m = re.match(r"(\S+) (\S+?):\d+:\d+ @(.*)$", data)
            if m:
                lt.add(f"{m.group(3)}@{os.path.basename(m.group(2))}:{m.group(1)}")
    panics = res.get("stats", {}).get("panics", []) + res.get("dispatch_panics", [])
    others = [p for p in panics if "already borrowed" not in p and "textDocument/" not in p[:14]]
    others = [p for p in panics if "already borrowed" not in p]
    if lt and not [p for p in others if ".rs:" in p]:
        return "lock_timeout: " + " ".join(sorted(lt))
    return "panic: " + "; ".join(panics)[:300]


def c28_judge(work, res):
    bad = []
    cls = res.get("class")
    if cls != "done":
        detail = cls
        if cls == "panic":
            detail = panic_detail(res)
        bad.append({"clause": "keeps_running", "detail": detail})
        if cls != "panic":
            return bad
    if any(p.startswith("textDocument/did") for p in res.get("dispatch_panics", [])):
        # the dispatcher died inside a notification (already reported above): that notification was
        # not applied, so a lagging copy afterwards is its consequence, not a second finding
        return bad
    snaps = {}
    for s in res.get("snapshots", []):
        snaps.setdefault(s["step"], {})[s["uri"]] = s
    for step, name, want in work["expected"]:
        s = snaps.get(step, {}).get(uri_of(name))
        if s is None:
            continue
        for which in ("file_cache", "vfs"):
            if s[which] != want:
                bad.append({"clause": "document_copy", "detail": f"{which} differs after step {step}",
                            "step": step, "doc": name, "which": which, "got": s[which], "want": want})
                break
        if bad and bad[-1]["clause"] == "document_copy":
            break
    if res.get("unanswered") and cls == "done":
        # (when a worker thread has panicked, that is reported above and its unanswered request is
        # the consequence, not a second finding)
        bad.append({"clause": "keeps_running", "detail": f"request(s) {res['unanswered']} not answered within 5 s simulated"})
    return bad


# ------------------------------------------------------------------------------------
# C28 check
# ------------------------------------------------------------------------------------

TIERS28 = {"quick": 900, "thorough": 12000}


def sched_args(seed, prop, idx):
    r = SplitMix.derive(seed, prop + "/sched", idx)
    # the oracles wait a bounded simulated time for quiescence (3.5 s = 7 poll periods): the stall
    # time injected into any one thread is bounded well below that
    return ["--sched", "swarm", "--seed", str(r.seed64()), "--est-len", "60000", "--stall-budget-ms", "400"]


def sig_of(bad):
    out = set()
    for b in bad:
        d = str(b.get("detail", ""))
        if b["clause"] == "keeps_running":
            import re
            if d.startswith("lock_timeout:"):
                out.add("keeps_running:" + d)
            else:
                d = d.replace(MOUNT_WS, "<ws>").replace(MOUNT_ERG, "<ergpath>")
                out.add("keeps_running:" + re.sub(r"\d+", "N", d)[:300])
        else:
            out.add(b["clause"])
    return sorted(out)


def c28_explore_one(seed, idx, w, d):
    hist = gen_c28(seed, idx)
    work = build_c28(hist)
    extra = sched_args(seed, "C28", idx)
    res = run_simels(work, w, d, extra)
    bad = c28_judge(work, res)
    mismatch = None
    resampled = 0
    if idx % 40 == 0:
        resampled = 1
        again = run_simels(work, w, d, extra)
        h0 = (res.get("stats") or {}).get("log_hash")
        h1 = (again.get("stats") or {}).get("log_hash")
        if h0 != h1 or res.get("class") != again.get("class"):
            mismatch = {"idx": idx, "h0": h0, "h1": h1, "c0": res.get("class"), "c1": again.get("class")}
    st = res.get("stats") or {}
    nchanges = sum(1 for e in hist["events"] if e[0] == "change")
    nontrivial = any(e[0] == "change" and work["final"] is not None for e in hist["events"])
    return {"idx": idx, "hist": hist, "bad": bad, "mismatch": mismatch, "resampled": resampled,
            "stat": {"hash": st.get("log_hash"), "steps": st.get("steps", 0), "sim_us": st.get("sim_time_us", 0),
                     "choice": st.get("choice_points", 0), "faults": st.get("faults", {}), "probes": st.get("probes", {}),
                     "threads": st.get("threads", 0), "sites": st.get("sites", {}), "class": res.get("class"),
                     "nchanges": nchanges, "nontrivial": nontrivial}}


def c28_minimise(seed, idx, hist, bad, w, d, budget_s):
    from common import ddmin
    sig = sig_of(bad)
    extra = sched_args(seed, "C28", idx)

    def fails(h):
        if not valid_c28(h):
            return False, None
        res = run_simels(build_c28(h), w, d, extra)
        b = c28_judge(build_c28(h), res)
        return bool(b) and bool(set(sig_of(b)) & set(sig)), b

    fixed = [e for e in hist["events"] if e[0] == "open"]
    rest = [(i, e) for i, e in enumerate(hist["events"]) if e[0] != "open"]

    def rebuild(sub):
        keep = {i for i, _ in sub}
        h = dict(hist)
        h["events"] = [e for i, e in enumerate(hist["events"]) if e[0] == "open" or i in keep]
        return h

    def test(sub):
        ok, _ = fails(rebuild(sub))
        return ok

    # budgets are counts of server runs, never wall-clock
    kept = ddmin(rest, test, max_tests=budget_s)
    h = rebuild(kept)
    # drop documents that are never changed
    changed_docs = {e[1] for e in h["events"] if e[0] == "change"}
    if changed_docs:
        h2 = dict(h)
        h2["events"] = [e for e in h["events"] if not (e[0] in ("open", "save") and e[1] not in changed_docs)
                        and not (e[0] == "req" and e[2] not in changed_docs)]
        h2["names"] = [n for n in h["names"] if n in changed_docs]
        h2["docs"] = {n: t for n, t in h["docs"].items() if n in changed_docs}
        if h2["names"] and fails(h2)[0]:
            h = h2
    # within multi-change notifications keep only what is needed
    ok, b = fails(h)
    if not ok:
        return hist, bad, sig
    return h, b, sig_of(b)


def minimise_els_schedule(work, sched, fails_with, w, d, max_tests=40):
    """the seeded schedule as an explicit deviation list (who runs instead of the default choice,
    which fault fires at which step), delta-debugged while `fails_with(extra_args)` stays true;
    None when the explicit replay does not reproduce the failure"""
    from common import ddmin
    res = run_simels(work, w, d, sched)
    devs = res.get("deviations")
    if devs is None:
        return None

    def args_for(ds):
        df = os.path.join(d, "devs.json")
        with open(df, "w") as fh:
            json.dump(ds, fh)
        return ["--sched", "explicit", "--devs-in", df, "--est-len", "60000"]

    if not fails_with(args_for(devs)):
        return None
    n0 = len(devs)
    devs = ddmin(devs, lambda sub: fails_with(args_for(sub)), max_tests=max_tests)
    log(f"      schedule: {n0} deviations -> {len(devs)}")
    return devs


def explicit_args(devs, d):
    df = os.path.join(d, "devs_replay.json")
    with open(df, "w") as fh:
        json.dump(devs, fh)
    return ["--sched", "explicit", "--devs-in", df, "--est-len", "60000"]


def c28_match_known(hist, sig, bad, known):
    for e in known:
        m = e.get("match", {})
        if m.get("clauses") and not all(any(x.startswith(c) for c in m["clauses"]) for x in sig):
            continue
        if m.get("contains") and not all(all(c in x for c in m["contains"]) for x in sig):
            continue
        if m.get("lock_files"):
            import re
            ok = True
            for x in sig:
                for ent in x.split("lock_timeout: ")[-1].split():
                    mm = re.match(r".*@([\w.]+):", ent)
                    if not mm or mm.group(1) not in m["lock_files"]:
                        ok = False
            if not ok:
                continue
        return e
    return None


def run_c28(tier, seed, replay=None):
    t0 = time.time()
    build(["simels"])
    report = Report("C28")
    known = load_known("C28")
    if replay:
        with open(replay) as fh:
            rp = json.load(fh)
        pool = Pool("c28", workers=1)
        try:
            def go(_, w, d):
                work = build_c28(rp["workload"])
                sched = explicit_args(rp["deviations"], d) if rp.get("deviations") is not None else rp["schedule"]
                res = run_simels(work, w, d, sched)
                return c28_judge(work, res)
            bad = pool.map(go, [0])[0]
        finally:
            pool.close()
        if bad and {x.split(":")[0] for x in sig_of(bad)} & {x.split(":")[0] for x in rp["expect"]["clauses"]}:
            print(f"VIOLATION property=C28 replay={replay}")
            print("  reproduced:", json.dumps(bad[0])[:400])
            return 1
        print("replay did not reproduce:", sig_of(bad) if bad else "no failure")
        return 2
    n = TIERS28[tier]
    pool = Pool("c28")
    try:
        results = pool.map(lambda idx, w, d: c28_explore_one(seed, idx, w, d), list(range(n)),
                           deadline=t0 + (2400 if tier == "quick" else 9000))
        results = [r for r in results if r is not None]
        mism = [r["mismatch"] for r in results if r["mismatch"]]
        if mism:
            log("determinism self-check failed:", json.dumps(mism[:3]))
            raise HarnessError("simels: same seed gave different event-log hashes")
        failing = [r for r in results if r["bad"]]
        log(f"[C28] {len(results)} histories, {len(failing)} with oracle failures; minimising")
        for r in failing[:30]:
            log(f'   history {r["idx"]}: {sig_of(r["bad"])} {json.dumps(r["bad"][0])[:200]}')

        def mini(r, w, d):
            h, b, sig = c28_minimise(seed, r["idx"], r["hist"], r["bad"], w, d, 80 if tier == "quick" else 200)
            work = build_c28(h)

            def fails_with(extra):
                bb = c28_judge(work, run_simels(work, w, d, extra))
                return bool(bb) and bool(set(sig_of(bb)) & set(sig))
            devs = minimise_els_schedule(work, sched_args(seed, "C28", r["idx"]), fails_with, w, d)
            return {"idx": r["idx"], "hist": h, "bad": b, "sig": sig, "deviations": devs}
        minis = pool.map(mini, failing[:48])
        seen = set()
        for m in minis:
            e = c28_match_known(m["hist"], m["sig"], m["bad"], known)
            if e:
                report.known(e, replay={"engine": "simels", "verif_seed": seed, "history_index": m["idx"],
                                        "workload": m["hist"], "schedule": sched_args(seed, "C28", m["idx"]),
                                        "deviations": m.get("deviations"),
                                        "expect": {"clauses": m["sig"], "first": m["bad"][0]}})
                continue
            key = (tuple(m["sig"]), sha(m["hist"]["events"]))
            if key in seen:
                continue
            seen.add(key)
            path = write_replay("C28", {"engine": "simels", "verif_seed": seed, "history_index": m["idx"],
                                        "workload": m["hist"], "schedule": sched_args(seed, "C28", m["idx"]),
                                        "deviations": m.get("deviations"),
                                        "expect": {"clauses": m["sig"], "first": m["bad"][0]}})
            report.violation(f'clauses={m["sig"]} first={json.dumps(m["bad"][0])[:400]}', path)
        for r in failing[48:]:
            path = write_replay("C28", {"engine": "simels", "verif_seed": seed, "history_index": r["idx"],
                                        "workload": r["hist"], "schedule": sched_args(seed, "C28", r["idx"]),
                                        "expect": {"clauses": sig_of(r["bad"]), "first": r["bad"][0]}})
            report.violation(f'(not minimised) {sig_of(r["bad"])}', path)
        write_els_evidence("C28", tier, seed, results, time.time() - t0, report,
                           ("one evaluation = one notification history (1-3 documents, 1-30 didChange notifications of 1-3 range "
                            "changes each, requests in flight, think-times, optional didSave) replayed against the whole server under "
                            "one seeded schedule; after every notification and at quiescence FileCache and VFS are compared with the "
                            "client's document; distinct by (history hash, event-log hash); non-trivial when it contains at least one "
                            "range change"),
                           lambda r: {"history_index": r["idx"], "events": r["hist"]["events"][:8], "docs": r["hist"]["names"]})
    finally:
        pool.close()
    return report.finish()


def write_els_evidence(prop, tier, seed, results, wall, report, rule, sample_fn):
    evals = 0
    distinct = set()
    steps = 0
    sim_us = 0
    faults = {}
    probes = {}
    sites = {}
    classes = {}
    resampled = 0
    maxthreads = 0
    for r in results:
        s = r["stat"]
        evals += r.get("nruns", 1)
        resampled += r["resampled"]
        steps += s["steps"]
        sim_us += s["sim_us"]
        maxthreads = max(maxthreads, s["threads"])
        classes[s["class"]] = classes.get(s["class"], 0) + 1
        for kk, v in s["faults"].items():
            faults[kk] = faults.get(kk, 0) + v
        for kk, v in s["probes"].items():
            probes[kk] = probes.get(kk, 0) + v
        for kk, v in s["sites"].items():
            sites[kk] = sites.get(kk, 0) + v
        if s["nontrivial"] and s["hash"]:
            distinct.add((sha(r["hist"]["events"]), s["hash"]))
    coverage = {
        "evaluations": evals, "distinct_nontrivial": len(distinct), "rule": rule,
        "samples": [sample_fn(r) for r in results[:3]],
        "histories": len(results), "runs_per_hour": int(evals / max(wall, 1e-9) * 3600),
        "sim_time_total_s": round(sim_us / 1e6, 3), "steps_total": steps, "max_threads": maxthreads,
        "faults_fired": faults, "probes": probes, "hook_sites_hit": sites, "run_classes": classes,
        "determinism_resamples": resampled,
        "components_real": COMPONENTS_REAL, "components_stubbed": COMPONENTS_STUBBED,
        "known_findings_hit": {k2: v[1] for k2, v in report.known_hits.items()},
        "exhaustive": False,
    }
    write_evidence(prop, tier, seed, "exploration", coverage, wall, len(report.violations), [
        "LSP transport is ordered and reliable (no drops, duplicates or reordering are injected: the property presumes a conforming client)",
        "positions are UTF-16 code units on code-point boundaries, \\n line ends, lines within the document; no range-less (full text) changes",
        "preemption only at hook points; finished threads linger",
    ])


# ------------------------------------------------------------------------------------
# C29: incremental analysis converges to a fresh analysis
# ------------------------------------------------------------------------------------

TIERS29 = {"quick": 450, "thorough": 6000}


def c29_def(r, i, names):
    """one top-level definition (one line); may refer to earlier names; some carry an error"""
    k = r.below(20)
    ints = [n for n in names if n[0] in "ab"]
    funs = [n for n in names if n[0] == "f"]
    if k <= 4 or not ints:
        return f"a{i} = {r.range(0, 99)}"
    if k <= 8:
        return f"b{i} = {r.pick(ints)} + {r.range(1, 9)}"
    if k <= 10:
        return f's{i} = "t{r.range(0, 99)}"'
    if k <= 12:
        return f"f{i} x{i} = x{i} + {r.range(1, 9)}"
    if k <= 13 and funs:
        return f"b{i} = {r.pick(funs)} {r.range(0, 9)}"
    if k == 14:
        return f"print! {r.pick(ints)}"
    if k == 15:
        return f'e{i} = {r.pick(ints)} + "x"'            # type error
    if k == 16:
        return f"u{i} = undefined_{i} + 1"               # name error
    if k == 17:
        return f"t{i}: Str = {r.range(0, 9)}"            # declared type mismatch
    if k == 18:
        return f"c{i}: Int = {r.pick(ints)}"
    return f"print! \"p{i}\""


def c29_def_clean(r, i):
    """a definition for documents that can become free of diagnostics: prints and public
    constants (no 'unused' warning), now and then a line with an error"""
    k = r.below(10)
    if k <= 3:
        return f'print! "p{i}"'
    if k <= 6:
        return f".v{i} = {r.range(0, 99)}"
    if k == 7:
        return f'.e{i} = {r.range(0, 9)} + "x"'          # type error
    if k == 8:
        return f"print! undefined_{i}"                    # name error
    return f'.s{i} = "t{r.range(0, 99)}"'


def def_name(line):
    import re
    m = re.match(r"^(\w+)", line)
    return m.group(1) if m and not line.startswith("print!") else None


def gen_c29(seed, idx):
    r = SplitMix.derive(seed, "C29", idx)
    two = r.chance(0.3)
    pyimp = (not two) and r.chance(0.35)      # a single document that is still a node of the module graph
    # a second document that neither imports nor is imported (its diagnostics are its own business)
    other = (not two) and r.chance(0.25)
    # documents that can become free of diagnostics (only then is an empty list ever published)
    clean = r.chance(0.25)
    names = ["a.er", "b.er"] if two else (["a.er", "c.er"] if other else ["a.er"])
    ctr = [0]

    def one_def(defined):
        return c29_def_clean(r, ctr[0]) if clean else c29_def(r, ctr[0], defined)

    def program(n_lines, prefix=None):
        lines = list(prefix or [])
        defined = [def_name(l) for l in lines if def_name(l)]
        for _ in range(n_lines):
            ctr[0] += 1
            l = one_def(defined)
            lines.append(l)
            if def_name(l):
                defined.append(def_name(l))
        return lines
    docs = {}
    if two:
        docs["b.er"] = [f".k{j} = {r.range(0, 50)}" for j in range(r.range(1, 3))]
        docs["a.er"] = program(r.range(2, 10), prefix=['b = import "b"', "print! b.k0" if clean else "a0 = b.k0 + 1"])
    elif pyimp:
        docs["a.er"] = program(r.range(3, 10), prefix=['pm = pyimport "math"', "print! pm.floor(2.5)" if clean else "a0 = pm.floor(2.5)"])
    else:
        docs["a.er"] = program(r.range(3, 12))
    if other:
        docs["c.er"] = program(r.range(2, 6))
    events = [["wait", r.pick([0, 50, 600])]]
    cur = {n: list(docs[n]) for n in names}
    think = [0, 0, 0, 1, 20, 100, 300, 450, 500, 520, 600, 900, 2000]
    history = []        # (doc, line index, previous text) of modifications, for `undo`
    # On the unchanged tree an edit that reaches the server before the polling thread has seen the
    # document is never analysed (known finding C29-edit-before-first-poll-never-analysed): one
    # history in ten starts editing at once, the others after two poll periods.
    early_edit = r.chance(0.1)
    for n in (["b.er", "a.er"] if two else names):
        events.append(["open", n, "\n".join(cur[n]) + "\n"])
        events.append(["wait", r.pick(think)])
    if not early_edit:
        events.append(["wait", 1100])
    for _ in range(r.range(1, 8)):
        n = r.pick(names)
        lines = cur[n]
        changes = []
        for _c in range(r.pick([1, 1, 1, 2, 3])):
            op = r.pick(["add", "add", "del", "mod", "mod", "neutral", "midline", "undo"])
            lo = 2 if ((two or pyimp) and n == "a.er") else 0        # keep the import lines of a.er
            if op == "neutral" and len(lines) > lo:
                # an edit that starts at column 0 and leaves the program as it was: a blank line, a
                # comment, or the same definition typed again
                k = r.range(lo, len(lines) - 1)
                kind = r.below(3)
                if kind == 0:
                    changes.append({"range": [k, 0, k, 0], "text": "\n"})
                    lines = lines[:k] + [""] + lines[k:]
                elif kind == 1:
                    changes.append({"range": [k, 0, k, 0], "text": "# note\n"})
                    lines = lines[:k] + ["# note"] + lines[k:]
                else:
                    changes.append({"range": [k, 0, k, len(lines[k])], "text": lines[k]})
                continue
            if op == "midline" and len(lines) > lo:
                # change a number in the middle of a line (no column-0 start)
                import re as _re
                cands = [(k, m_) for k in range(lo, len(lines)) for m_ in _re.finditer(r"\d+", lines[k]) if m_.start() > 0]
                if cands:
                    k, m_ = r.pick(cands)
                    new = str(r.range(0, 99))
                    history.append((n, k, lines[k]))
                    changes.append({"range": [k, m_.start(), k, m_.end()], "text": new})
                    lines = lines[:k] + [lines[k][:m_.start()] + new + lines[k][m_.end():]] + lines[k + 1:]
                    continue
                op = "mod"
            if op == "undo":
                # put a line back to what it was before an earlier modification (mid-line edit)
                cands = [(k, old) for (nn, k, old) in history if nn == n and k < len(lines) and lines[k] != old
                         and len(old) > 3 and len(lines[k]) > 3]
                if cands:
                    k, old = r.pick(cands)
                    changes.append({"range": [k, 2, k, len(lines[k])], "text": old[2:]} if lines[k][:2] == old[:2]
                                   else {"range": [k, 0, k, len(lines[k])], "text": old})
                    lines = lines[:k] + [old] + lines[k + 1:]
                    continue
                op = "mod"
            if op == "add" or len(lines) <= lo + 1:
                k = r.range(lo, len(lines))
                ctr[0] += 1
                if n == "b.er":
                    new = f".k{ctr[0]} = {r.range(0, 50)}"
                else:
                    new = one_def([def_name(l) for l in lines[:k] if def_name(l)])
                changes.append({"range": [k, 0, k, 0], "text": new + "\n"})
                lines = lines[:k] + [new] + lines[k:]
            elif op == "del":
                k = r.range(lo, len(lines) - 1)
                changes.append({"range": [k, 0, k + 1, 0], "text": ""})
                lines = lines[:k] + lines[k + 1:]
            else:
                k = r.range(lo, len(lines) - 1)
                ctr[0] += 1
                if n == "b.er":
                    new = f".k{ctr[0]} = {r.range(0, 50)}" if r.chance(0.5) else lines[k].split(" = ")[0] + f" = {r.range(0, 50)}"
                else:
                    new = one_def([def_name(l) for l in lines[:k] if def_name(l)])
                history.append((n, k, lines[k]))
                changes.append({"range": [k, 0, k, len(lines[k])], "text": new})
                lines = lines[:k] + [new] + lines[k + 1:]
        cur[n] = lines
        events.append(["change", n, 1, changes])
        if r.chance(0.15):
            events.append(["save", n])
        events.append(["wait", r.pick(think)])
    return {"docs": {n: "\n".join(docs[n]) + "\n" for n in names}, "names": names, "events": events,
            "autosave": r.pick(["off", "off", "off", "afterDelay"]), "deepcompletion": r.chance(0.05)}


def build_c29(hist, fresh=False):
    """script of the history; with fresh=True the script of its twin: a new server that is only
    told didOpen(final text) of every document"""
    steps = list(INIT)
    cur = {}
    ver = {}
    order = []
    for e in hist["events"]:
        if e[0] == "open":
            cur[e[1]] = e[2]
            ver[e[1]] = 1
            order.append(e[1])
            if not fresh:
                steps.append(did_open(e[1], 1, e[2]))
        elif e[0] == "change":
            ver[e[1]] += e[2]
            cur[e[1]] = apply_changes(cur[e[1]], e[3])
            if not fresh:
                steps.append(did_change(e[1], ver[e[1]], e[3]))
        elif e[0] == "save" and not fresh:
            steps.append(did_save(e[1]))
        elif e[0] == "wait" and e[1] and not fresh:
            steps.append({"wait_ms": e[1]})
    if fresh:
        steps.append({"wait_ms": 100})
        for n in order:
            steps.append(did_open(n, 1, cur[n]))
    else:
        if hist["autosave"] == "afterDelay":
            # such a client saves after its delay; the history ends with the save
            steps.append({"wait_ms": 1000})
            for n in order:
                steps.append(did_save(n))
    # quiescence: well over three poll periods, also with late timers
    steps.append({"wait_ms": 3500})
    steps.append({"snapshot": [uri_of(n) for n in order]})
    steps.append(req("hover", 9999, order[0], 0, 0, wait=True))
    script = {"steps": steps, "autosave": "off" if fresh else hist["autosave"],
              "deepcompletion": False if fresh else hist["deepcompletion"]}
    return {"docs": hist["docs"], "script": script, "final": dict(cur), "order": order}


def diag_keys(res, name):
    out = []
    for d in (res.get("diags") or {}).get(uri_of(name), []) or []:
        out.append((json.dumps(d.get("range"), sort_keys=True), d.get("severity"),
                    alpha_rename(norm_text(d.get("message", ""), MOUNT_WS))))
    return sorted(out)


def c29_judge(hist, work, res, fresh_res):
    bad = []
    for which, rr in (("history", res), ("fresh", fresh_res)):
        if rr.get("class") != "done":
            detail = rr.get("class")
            if detail == "panic":
                detail = panic_detail(rr)
            bad.append({"clause": "keeps_running", "detail": f"{which}: {detail}"})
    if bad:
        return bad
    # the server's copy must be the final text, otherwise the comparison below is meaningless
    for s in res.get("snapshots", []):
        name = s["uri"].rsplit("/", 1)[-1]
        if s["file_cache"] != work["final"].get(name):
            bad.append({"clause": "document_copy", "detail": f"{name} differs from the client's copy"})
            return bad
    for name in work["order"]:
        a = diag_keys(res, name)
        b = diag_keys(fresh_res, name)
        sa, sb = sorted(set(a)), sorted(set(b))
        if sa != sb:
            only_a = [x for x in sa if x not in sb]
            only_b = [x for x in sb if x not in sa]
            # nothing missing, only extra entries: its own clause
            clause = "diagnostics_superset" if not only_b else "diagnostics_converge"
            bad.append({"clause": clause, "doc": name,
                        "detail": json.dumps({"stale_or_extra": only_a[:3], "missing": only_b[:3],
                                              "n_history": len(a), "n_fresh": len(b)})[:900]})
        elif a != b:
            # the same diagnostics, but some of them several times (on either side)
            bad.append({"clause": "diagnostics_duplicated", "doc": name,
                        "detail": json.dumps({"n_history": len(a), "n_fresh": len(b), "distinct": len(sa)})})
    if bad:
        ev = run_evidence(res, hist)
        for b_ in bad:
            b_.update(ev)
    return bad


def run_evidence(res, hist=None):
    """what the probes say about this run: did two analyses overlap, did a didSave take the
    'nothing changed' short-cut, did the polling thread see a document for the first time at its
    final, already edited version (which it then records as checked)"""
    depth = {}
    overlapped = False
    skipped = 0
    first_seen = {}
    for name, data in res.get("probe_log", []):
        thread = data.rsplit(" @", 1)[-1]
        if name == "auto_diag_first_seen":
            uri, ver = data.rsplit(" @", 1)[0].rsplit(" ", 1)
            first_seen.setdefault(uri.rsplit("/", 1)[-1], int(ver))
        if name == "check_file_begin":
            if any(v > 0 for t, v in depth.items() if t != thread):
                overlapped = True
            depth[thread] = depth.get(thread, 0) + 1
        elif name == "check_file_end":
            depth[thread] = max(0, depth.get(thread, 0) - 1)
        elif name == "recheck_skipped_no_change":
            skipped += 1
    unchecked = False
    if hist is not None:
        final_ver = {}
        for e in hist["events"]:
            if e[0] == "open":
                final_ver[e[1]] = 1
            elif e[0] == "change":
                final_ver[e[1]] += e[2]
        unchecked = any(v > 1 and first_seen.get(n) == v for n, v in final_ver.items())
    return {"checks_overlapped": overlapped, "recheck_skipped": skipped > 0, "unchecked_first_sight": unchecked}


def c29_explore_one(seed, idx, w, d):
    hist = gen_c29(seed, idx)
    work = build_c29(hist)
    fresh = build_c29(hist, fresh=True)
    extra = sched_args(seed, "C29", idx)
    res = run_simels(work, w, d, extra)
    fres = run_simels(fresh, w, d, ["--sched", "default"])
    bad = c29_judge(hist, work, res, fres)
    mismatch = None
    resampled = 0
    if idx % 40 == 0:
        resampled = 1
        again = run_simels(work, w, d, extra)
        h0 = (res.get("stats") or {}).get("log_hash")
        h1 = (again.get("stats") or {}).get("log_hash")
        if h0 != h1 or res.get("class") != again.get("class"):
            mismatch = {"idx": idx, "h0": h0, "h1": h1, "c0": res.get("class"), "c1": again.get("class")}
    st = res.get("stats") or {}
    first_open = next(e[2] for e in hist["events"] if e[0] == "open")
    return {"idx": idx, "hist": hist, "bad": bad, "mismatch": mismatch, "resampled": resampled, "nruns": 2,
            "stat": {"hash": st.get("log_hash"), "steps": st.get("steps", 0), "sim_us": st.get("sim_time_us", 0),
                     "choice": st.get("choice_points", 0), "faults": st.get("faults", {}), "probes": st.get("probes", {}),
                     "threads": st.get("threads", 0), "sites": st.get("sites", {}), "class": res.get("class"),
                     "nontrivial": any(work["final"][n] != t for n, t in [(e[1], e[2]) for e in hist["events"] if e[0] == "open"])}}


def c29_fails(seed, idx, hist, w, d, sig, sched=None):
    work = build_c29(hist)
    res = run_simels(work, w, d, sched or sched_args(seed, "C29", idx))
    fres = run_simels(build_c29(hist, fresh=True), w, d, ["--sched", "default"])
    b = c29_judge(hist, work, res, fres)
    return bool(b) and bool({x.split(":")[0] for x in sig_of(b)} & {x.split(":")[0] for x in sig}), b


def valid_c29(hist):
    cur = {}
    for e in hist["events"]:
        if e[0] == "open":
            cur[e[1]] = e[2]
        elif e[0] == "change":
            if e[1] not in cur:
                return False
            text = cur[e[1]]
            for ch in e[3]:
                lines = text.split("\n")
                l0, c0, l1, c1 = ch["range"]
                if l0 >= len(lines) or l1 >= len(lines):
                    return False
                if c0 > len(lines[l0]) or c1 > len(lines[l1]) or (l0, c0) > (l1, c1):
                    return False
                text = apply_changes(text, [ch])
            cur[e[1]] = text
    return True


def c29_minimise(seed, idx, hist, bad, w, d, budget_s):
    from common import ddmin
    sig = sig_of(bad)
    rest = [(i, e) for i, e in enumerate(hist["events"]) if e[0] != "open"]

    def rebuild(sub):
        keep = {i for i, _ in sub}
        h = dict(hist)
        h["events"] = [e for i, e in enumerate(hist["events"]) if e[0] == "open" or i in keep]
        return h

    # a reduction must not slide into the first-sight defect (dropping the wait after didOpen makes
    # any history an instance of it) - nor out of it
    first_sight = all(b_.get("unchecked_first_sight") for b_ in bad)

    def same_failure(h):
        ok, b = c29_fails(seed, idx, h, w, d, sig)
        return ok and all(b_.get("unchecked_first_sight") for b_ in b) == first_sight, b

    def test(sub):
        h = rebuild(sub)
        return valid_c29(h) and same_failure(h)[0]

    kept = ddmin(rest, test, max_tests=budget_s)
    h = rebuild(kept)
    ok, b = same_failure(h)
    if not ok:
        return hist, bad, sig
    return h, b, sig_of(b)


def c29_predicates(hist):
    """shape predicates over a (minimised) history"""
    t = 0
    first_change_at = None
    opened_at = None
    saves = 0
    for e in hist["events"]:
        if e[0] == "wait":
            t += e[1]
        elif e[0] == "open" and opened_at is None:
            opened_at = t
        elif e[0] == "change" and first_change_at is None:
            first_change_at = t
        elif e[0] == "save":
            saves += 1
    return {
        "change_before_first_poll": first_change_at is not None and opened_at is not None
        and first_change_at - opened_at < 500,
        "no_save": saves == 0 and hist["autosave"] == "off",
        "autosave_after_delay": hist["autosave"] == "afterDelay",
        "two_docs": len(hist["names"]) > 1,
        "only_under_preemption": bool(hist.get("only_under_preemption")),
        "checks_overlapped": bool(hist.get("checks_overlapped")),
        "recheck_skipped": bool(hist.get("recheck_skipped")),
        "unchecked_first_sight": bool(hist.get("unchecked_first_sight")),
    }


def c29_match_known(hist, sig, bad, known):
    preds = c29_predicates(hist)
    for e in known:
        m = e.get("match", {})
        if m.get("clauses") and not all(any(x.startswith(c) for c in m["clauses"]) for x in sig):
            continue
        if any(not preds.get(p) for p in m.get("predicates", [])):
            continue
        if m.get("lock_files"):
            if not c28_match_known(hist, sig, bad, [e]):
                continue
        return e
    return None


def run_c29(tier, seed, replay=None):
    t0 = time.time()
    build(["simels"])
    report = Report("C29")
    known = load_known("C29")
    if replay:
        with open(replay) as fh:
            rp = json.load(fh)
        pool = Pool("c29", workers=1)
        try:
            bad = pool.map(lambda _, w, d: c29_fails(
                rp["verif_seed"], rp["history_index"], rp["workload"], w, d, rp["expect"]["clauses"],
                sched=(explicit_args(rp["deviations"], d) if rp.get("deviations") is not None else None))[1], [0])[0]
        finally:
            pool.close()
        if bad and {x.split(":")[0] for x in sig_of(bad)} & {x.split(":")[0] for x in rp["expect"]["clauses"]}:
            print(f"VIOLATION property=C29 replay={replay}")
            print("  reproduced:", json.dumps(bad[0])[:500])
            return 1
        print("replay did not reproduce:", sig_of(bad) if bad else "no failure")
        return 2
    n = TIERS29[tier]
    pool = Pool("c29")
    try:
        results = pool.map(lambda idx, w, d: c29_explore_one(seed, idx, w, d), list(range(n)),
                           deadline=t0 + (2400 if tier == "quick" else 9000))
        results = [r for r in results if r is not None]
        mism = [r["mismatch"] for r in results if r["mismatch"]]
        if mism:
            log("determinism self-check failed:", json.dumps(mism[:3]))
            raise HarnessError("simels: same seed gave different event-log hashes")
        failing = [r for r in results if r["bad"]]
        log(f"[C29] {len(results)} histories, {len(failing)} with oracle failures; minimising")
        for r in failing[:30]:
            log(f'   history {r["idx"]}: {sig_of(r["bad"])} {c29_predicates(r["hist"])} {json.dumps(r["bad"][0])[:300]}')

        def mini(r, w, d):
            h, b, sig = c29_minimise(seed, r["idx"], r["hist"], r["bad"], w, d, 60 if tier == "quick" else 150)
            # does it need preemption? the same history under the default (never preempt) schedule
            under_default, _ = c29_fails(seed, r["idx"], h, w, d, sig, sched=["--sched", "default"])
            devs = None
            if not under_default:
                devs = minimise_els_schedule(build_c29(h), sched_args(seed, "C29", r["idx"]),
                                             lambda extra: c29_fails(seed, r["idx"], h, w, d, sig, sched=extra)[0], w, d,
                                             max_tests=30)
            return {"idx": r["idx"], "hist": h, "bad": b, "sig": sig, "only_under_preemption": not under_default,
                    "deviations": devs}
        minis = pool.map(mini, failing[:48])
        seen = set()
        for m in minis:
            m["hist"]["only_under_preemption"] = m["only_under_preemption"]
            m["hist"]["checks_overlapped"] = all(b_.get("checks_overlapped") for b_ in m["bad"])
            m["hist"]["recheck_skipped"] = all(b_.get("recheck_skipped") for b_ in m["bad"])
            m["hist"]["unchecked_first_sight"] = all(b_.get("unchecked_first_sight") for b_ in m["bad"])
            e = c29_match_known(m["hist"], m["sig"], m["bad"], known)
            if e:
                report.known(e, replay={"engine": "simels", "verif_seed": seed, "history_index": m["idx"],
                                        "workload": m["hist"], "schedule": sched_args(seed, "C29", m["idx"]),
                                        "deviations": m.get("deviations"),
                                        "expect": {"clauses": m["sig"], "first": m["bad"][0]}})
                continue
            key = (tuple(m["sig"]), sha(m["hist"]["events"]))
            if key in seen:
                continue
            seen.add(key)
            path = write_replay("C29", {"engine": "simels", "verif_seed": seed, "history_index": m["idx"],
                                        "workload": m["hist"], "schedule": sched_args(seed, "C29", m["idx"]),
                                        "deviations": m.get("deviations"),
                                        "expect": {"clauses": m["sig"], "first": m["bad"][0]}})
            report.violation(f'clauses={m["sig"]} preds={c29_predicates(m["hist"])} first={json.dumps(m["bad"][0])[:500]}', path)
        for r in failing[48:]:
            # not minimised: classified by what the failing run itself showed (no default-schedule re-run,
            # so the preemption-only findings cannot match here)
            h = dict(r["hist"])
            for key in ("checks_overlapped", "recheck_skipped", "unchecked_first_sight"):
                h[key] = all(b_.get(key) for b_ in r["bad"])
            e = c29_match_known(h, sig_of(r["bad"]), r["bad"], known)
            if e:
                report.known(e)
                continue
            path = write_replay("C29", {"engine": "simels", "verif_seed": seed, "history_index": r["idx"],
                                        "workload": r["hist"], "schedule": sched_args(seed, "C29", r["idx"]),
                                        "expect": {"clauses": sig_of(r["bad"]), "first": r["bad"][0]}})
            report.violation(f'(not minimised) {sig_of(r["bad"])}', path)
        write_els_evidence("C29", tier, seed, results, time.time() - t0, report,
                           ("one evaluation = one server run; each edit history (1-2 documents of 3-12 top-level definitions, 1-8 "
                            "didChange notifications adding/deleting/modifying whole definitions, seeded think-times around the 500 ms "
                            "poll, optional didSave, auto-save off or afterDelay) runs under one seeded schedule and is compared at "
                            "quiescence with a fresh server that is only told didOpen(final text) (default schedule); distinct by "
                            "(history hash, event-log hash); non-trivial when the final text differs from the opened text"),
                           lambda r: {"history_index": r["idx"], "events": r["hist"]["events"][:8], "autosave": r["hist"]["autosave"]})
    finally:
        pool.close()
    return report.finish()
