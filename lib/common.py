"""Shared plumbing of the orchestrator: building the harness binaries from /repo's working
tree, running them, worker pools, evidence files, known findings, replay files."""

import concurrent.futures as cf
import hashlib
import importlib.util
import json
import os
import re
import shutil
import subprocess
import sys
import threading
import time

VERIF = os.path.dirname(os.path.dirname(os.path.abspath(__file__)))
SIM = os.path.join(VERIF, "sim")
TARGET = os.path.join(SIM, "target")
BIN = os.path.join(TARGET, "sim")
# one target directory per harness whose dependency features differ: cargo keys erg_parser /
# erg_compiler artefacts by package, not by erg_common's feature set, so sharing a directory
# would rebuild them at every switch
TARGET_OF = {"simc": "target", "seqc": "target-seq", "simels": "target-els", "simrepl": "target-repl",
             "simgraph": "target"}


def bin_path(pkg):
    return os.path.join(SIM, TARGET_OF.get(pkg, "target"), "sim", pkg)
SCRATCH = os.path.join(VERIF, "scratch")


def _mount_base():
    """where worker directories are bind-mounted (erg's tables are keyed by absolute path, so the
    path is part of the execution): /verif/scratch whenever /verif exists, so that a copy of this
    tree elsewhere (vp run's snapshot) explores exactly the executions /verif itself would; this
    copy's own scratch otherwise. Every harness process mounts in its private namespace, so copies
    running side by side do not see each other."""
    fixed = "/verif/scratch"
    try:
        if os.path.isdir("/verif"):
            os.makedirs(fixed, exist_ok=True)
            if os.access(fixed, os.W_OK):
                return fixed
    except OSError:
        pass
    return SCRATCH


MOUNT_BASE = _mount_base()
EVIDENCE = os.path.join(VERIF, "evidence")
REPLAY = os.path.join(VERIF, "replay")
KNOWN = os.path.join(VERIF, "known_findings.json")
REPO = "/repo"

NCPU = min(16, os.cpu_count() or 1)
ANSI = re.compile(r"\x1b\[[0-9;]*m")

PY_EXE = os.path.realpath(sys.executable)
PY_MAGIC = importlib.util.MAGIC_NUMBER[:2].hex()
PY_VER = "%d.%d.%d" % sys.version_info[:3]


class HarnessError(Exception):
    """something is wrong with the machinery, not with erg: exit 2"""


def log(*a):
    print(*a, file=sys.stderr, flush=True)


def cargo_env(pkg=None):
    env = dict(os.environ)
    env["CARGO_NET_OFFLINE"] = "true"
    env["CARGO_TARGET_DIR"] = os.path.join(SIM, TARGET_OF.get(pkg, "target"))
    env.pop("RUSTFLAGS", None)
    return env


_built = set()


def build(packages):
    """cargo build -p <pkg> --profile sim, one invocation per package (els switches on
    erg_common/els, which must not be unified into the builder harness)."""
    for pkg in packages:
        if pkg in _built:
            continue
        t0 = time.time()
        p = subprocess.run(
            ["cargo", "build", "-p", pkg, "--profile", "sim", "--offline"],
            cwd=SIM, env=cargo_env(pkg), capture_output=True, text=True)
        if p.returncode != 0:
            log(p.stdout[-3000:])
            log(p.stderr[-6000:])
            raise HarnessError(f"cargo build -p {pkg} failed")
        log(f"[build] {pkg}: {time.time() - t0:.1f}s")
        _built.add(pkg)


def run_json(argv, timeout=120, env=None, cwd=None, input_bytes=None):
    """runs a harness binary; returns (result dict, returncode). The result always has a
    'class': the harness's own, or signal(n) / exit(n) / timeout / nojson."""
    try:
        p = subprocess.run(argv, capture_output=True, timeout=timeout, env=env, cwd=cwd,
                           input=input_bytes)
    except subprocess.TimeoutExpired:
        return {"class": "wall_timeout"}, None
    out = p.stdout.decode("utf-8", "replace").strip().split("\n")
    res = None
    for line in reversed(out):
        if line.startswith("{"):
            try:
                res = json.loads(line)
                break
            except Exception:
                pass
    if p.returncode < 0:
        res = res or {}
        res["stderr"] = p.stderr.decode("utf-8", "replace")[-2000:]
        # the harness's crash reporter names the sim thread the signal was raised in
        m = re.search(r"CRASH signal=\d+ thread=([^\n]*)", res["stderr"])
        res["class"] = f"signal({-p.returncode})" + (f"@{m.group(1)}" if m else "")
    elif res is None:
        res = {"class": f"nojson(exit {p.returncode})",
               "stderr": p.stderr.decode("utf-8", "replace")[-2000:]}
    elif p.returncode not in (0, 3):
        res["class"] = f"exit({p.returncode})"
        res["stderr"] = p.stderr.decode("utf-8", "replace")[-2000:]
    return res, p.returncode


class Pool:
    """16 workers, each with its own core number and scratch directory"""

    def __init__(self, name, workers=NCPU):
        self.name = name
        self.workers = workers
        self.base = os.path.join(SCRATCH, name)
        shutil.rmtree(self.base, ignore_errors=True)
        os.makedirs(self.base, exist_ok=True)
        self._free = list(range(workers))
        self._lock = threading.Lock()

    def map(self, fn, items, deadline=None):
        """fn(item, worker_no, worker_dir) -> result; results in item order; items that would
        start after `deadline` are skipped (None)"""
        results = [None] * len(items)

        def wrap(i):
            if deadline is not None and time.time() > deadline:
                return
            with self._lock:
                w = self._free.pop()
            try:
                # fixed-length path: diagnostics, allocation sizes and hence heap layout do not
                # depend on which worker ran a project (matters for replaying memory errors)
                d = os.path.join(self.base, f"w{w:02d}")
                os.makedirs(d, exist_ok=True)
                results[i] = fn(items[i], w, d)
            finally:
                with self._lock:
                    self._free.append(w)

        with cf.ThreadPoolExecutor(self.workers) as ex:
            futs = [ex.submit(wrap, i) for i in range(len(items))]
            for f in futs:
                f.result()
        return results

    def close(self):
        shutil.rmtree(self.base, ignore_errors=True)


def sha(x):
    if not isinstance(x, (bytes, bytearray)):
        x = json.dumps(x, sort_keys=True).encode()
    return hashlib.sha256(x).hexdigest()[:16]


# ------------------------------------------------------------------------------------
# evidence / known findings / violations
# ------------------------------------------------------------------------------------

def write_evidence(prop, tier, seed, level, coverage, wall_s, violations, assumptions, extra=None):
    os.makedirs(EVIDENCE, exist_ok=True)
    ev = {
        "property_id": prop, "tier": tier, "seed": seed, "level": level,
        "coverage": coverage, "assumptions": assumptions, "wall_s": round(wall_s, 2),
        "violations": violations,
    }
    if extra:
        ev.update(extra)
    tmp = os.path.join(EVIDENCE, f".{prop}.json.tmp")
    with open(tmp, "w") as fh:
        json.dump(ev, fh, indent=1, sort_keys=True)
    os.replace(tmp, os.path.join(EVIDENCE, f"{prop}.json"))


def load_known(prop):
    """entries of known_findings.json for `prop` with status 'known' (fixed ones suppress nothing)"""
    try:
        with open(KNOWN) as fh:
            data = json.load(fh)
    except FileNotFoundError:
        return []
    return [e for e in data.get("findings", []) if e.get("property") == prop and e.get("status") == "known"]


def write_replay(prop, payload):
    d = os.path.join(REPLAY, prop)
    os.makedirs(d, exist_ok=True)
    payload = dict(payload)
    payload["property"] = prop
    h = sha(payload)
    path = os.path.join(d, f"{h}.json")
    with open(path, "w") as fh:
        json.dump(payload, fh, indent=1, sort_keys=True)
    return path


class Report:
    """collects violations and known-finding hits; prints the contract lines; exit code"""

    def __init__(self, prop):
        self.prop = prop
        self.violations = []      # (signature, replay path)
        self.known_hits = {}      # finding id -> (text, count)

    def known(self, entry, detail="", replay=None):
        """a violation that matches a listed finding; the first hit of each finding in a run also
        leaves its minimised reproducer behind (replay/<prop>/known-<id>.json), for the reader"""
        fid = entry["id"]
        t, n = self.known_hits.get(fid, (entry.get("what", fid), 0))
        self.known_hits[fid] = (t, n + 1)
        if n == 0 and replay is not None:
            d = os.path.join(REPLAY, self.prop)
            os.makedirs(d, exist_ok=True)
            payload = dict(replay)
            payload["property"] = self.prop
            payload["known_finding"] = fid
            with open(os.path.join(d, f"known-{fid}.json"), "w") as fh:
                json.dump(payload, fh, indent=1, sort_keys=True)

    def violation(self, signature, replay_path):
        self.violations.append((signature, replay_path))

    def finish(self):
        for fid, (what, n) in sorted(self.known_hits.items()):
            print(f"KNOWN-FINDING: property={self.prop} {fid}: {what} (hit {n}x)")
        for sig, path in self.violations:
            print(f"VIOLATION property={self.prop} replay={path}")
            print(f"  {sig}")
        sys.stdout.flush()
        return 1 if self.violations else 0


def norm_text(s, root=None):
    s = ANSI.sub("", s)
    if root:
        s = s.replace(root.rstrip("/") + "/", "")
    return s


_TV = re.compile(r"(\?|%)(\d+)")


def alpha_rename(s):
    """numbers of anonymous type variables (?12, %141) come from a process-global counter and
    are presentation: rename them per message in order of first appearance"""
    seen = {}

    def sub(m):
        k = m.group(0)
        if k not in seen:
            seen[k] = f"{m.group(1)}#{len(seen)}"
        return seen[k]

    return _TV.sub(sub, s)


def ddmin(items, test, max_tests=400):
    """classic delta debugging: a 1-minimal sublist of `items` for which test(sublist) is True.
    `test(items)` is assumed True."""
    n = 2
    tests = 0
    items = list(items)
    while len(items) >= 2 and tests < max_tests:
        chunk = max(1, len(items) // n)
        subsets = [items[i:i + chunk] for i in range(0, len(items), chunk)]
        reduced = False
        for i, sub in enumerate(subsets):
            comp = [x for j, s in enumerate(subsets) if j != i for x in s]
            tests += 1
            if comp and test(comp):
                items = comp
                n = max(n - 1, 2)
                reduced = True
                break
            if tests >= max_tests:
                break
        if not reduced:
            if n >= len(items):
                break
            n = min(len(items), n * 2)
    if len(items) == 1 and tests < max_tests:
        if test([]):
            return []
    return items
