"""./check setup: offline build of every harness binary from /repo's working tree, then a
short self-test (determinism of the simulator on a fixed project)."""
import json
import os

from common import HarnessError, Pool, bin_path, build, log

PACKAGES = ["simc", "seqc", "simgraph", "simels", "simrepl", "simpyc"]


def selftest_lite():
    from builder_checks import SIMC, explore_project, schedule_seeds, GEN_OPTS
    from genproj import gen_project
    pool = Pool("sft", workers=1)
    try:
        def go(_, w, d):
            proj = gen_project(1, 3, GEN_OPTS["C19"])
            seeds = schedule_seeds(1, "selftest", 0, 4)
            a, _ = explore_project("C19", proj, seeds, w, d, want_seq=False)
            b, _ = explore_project("C19", proj, seeds, w, d, want_seq=False)
            ha = [r["res"].get("stats", {}).get("log_hash") for r in a]
            hb = [r["res"].get("stats", {}).get("log_hash") for r in b]
            return ha, hb
        ha, hb = pool.map(go, [0])[0]
    finally:
        pool.close()
    if ha != hb or None in ha:
        raise HarnessError(f"selftest: simulator not deterministic: {ha} vs {hb}")
    log("[setup] selftest ok:", ha)


def run():
    build(PACKAGES)
    selftest_lite()
    return 0
