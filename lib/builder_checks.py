"""C19 (schedule-independent output) and C20 (termination / import resolution) on the real
package builder under the simulator (`simc`, and `seqc` = PARALLEL off)."""

import json
import os
import subprocess
import time

from common import (SCRATCH, MOUNT_BASE, bin_path, PY_EXE, PY_MAGIC, PY_VER, HarnessError, Pool, Report, alpha_rename, build,
                    ddmin, load_known, log, norm_text, run_json, sha, write_evidence, write_replay)
from genproj import gen_project, write_project
from rng import SplitMix

SIMC = bin_path("simc")
SEQC = bin_path("seqc")

COMPONENTS_REAL = [
    "erg lexer/parser/lowerer/type checker/codegen (erg_parser, erg_compiler)",
    "PackageBuilder, SharedPromises, SharedModuleCache/Graph/Index/TraitImpls/Errors, VFS",
    "parking_lot RwLock state inside erg_common::shared::Shared", "thread_local (Forkable) type-variable state",
    "one OS thread per imported module (spawn_new_thread)", "CPython 3.11 executing the produced .pyc (C20)",
]
COMPONENTS_STUBBED = [
    "OS scheduler -> baton scheduler (one runnable OS thread at a time, PRNG picks)",
    "wall clock / sleeps / lock time-outs -> discrete-event clock",
    "blocking inside parking_lot locks -> try-lock polling every 1 ms of simulated time, writer-preference flag",
    "JoinHandle::is_finished -> runtime's finished flag",
    "python/poetry environment detection -> pinned to the orchestrator's interpreter",
]


MOUNT_AT = os.path.join(MOUNT_BASE, "mnt")


def harness_args(dir_, pin, extra):
    # every worker sees its project at the same absolute path (private bind mount): erg's
    # path-keyed tables iterate in an order that depends on the path
    os.makedirs(MOUNT_AT, exist_ok=True)
    return ["--dir", dir_, "--mount-at", MOUNT_AT, "--pin", str(pin), "--python", PY_EXE,
            "--magic", PY_MAGIC, "--pyver", PY_VER] + extra


ASAN_BIN = os.path.join(os.path.dirname(os.path.dirname(SIMC)), "..", "target-asan",
                        "x86_64-unknown-linux-gnu", "sim", "simc")
ASAN_BIN = os.path.normpath(ASAN_BIN)
_asan_ok = None


def build_asan():
    """thorough tier: an AddressSanitizer build of simc (nightly has the runtime); a dangling
    access is then reported at the access itself, not only when it happens to fault"""
    global _asan_ok
    if _asan_ok is not None:
        return _asan_ok
    env = dict(os.environ)
    env["CARGO_NET_OFFLINE"] = "true"
    env["CARGO_TARGET_DIR"] = os.path.normpath(os.path.join(os.path.dirname(ASAN_BIN), "..", ".."))
    env["RUSTFLAGS"] = "-Zsanitizer=address"
    t0 = time.time()
    p = subprocess.run(["cargo", "+nightly", "build", "-p", "simc", "--profile", "sim", "--offline",
                        "--target", "x86_64-unknown-linux-gnu"],
                       cwd=os.path.join(os.path.dirname(os.path.dirname(SIMC)), ".."), env=env,
                       capture_output=True, text=True)
    _asan_ok = p.returncode == 0 and os.path.exists(ASAN_BIN)
    log(f"[build] simc (AddressSanitizer): {'ok' if _asan_ok else 'unavailable'} {time.time() - t0:.1f}s")
    if not _asan_ok:
        log(p.stderr[-1500:])
    return _asan_ok


def run_simc(binary, dir_, pin, extra, timeout=120):
    env = dict(os.environ)
    env["MALLOC_PERTURB_"] = "165"       # freed buckets are poisoned: a dangling read misbehaves at once
    if binary == ASAN_BIN:
        env["ASAN_OPTIONS"] = "detect_leaks=0:abort_on_error=0"
        timeout = 600
    res, rc = run_json([binary] + harness_args(dir_, pin, extra), timeout=timeout, env=env)
    if "AddressSanitizer" in res.get("stderr", "") or (binary == ASAN_BIN and res.get("class", "").startswith("exit(")):
        import re
        m = re.search(r"ERROR: AddressSanitizer: (\S+)", res.get("stderr", ""))
        res["class"] = "memory_error(" + (m.group(1) if m else "?") + ")"
    return res


def diag_key(d, root):
    subs = []
    for s in d.get("subs", []):
        msg = " / ".join(s.get("msg") or [])
        subs.append((json.dumps(s.get("loc")), alpha_rename(norm_text(msg, root)),
                     alpha_rename(norm_text(s.get("hint") or "", root))))
    return (d["sev"], d["errno"], d["kind"], norm_text(d["file"], root), json.dumps(d["loc"]),
            alpha_rename(norm_text(d["msg"], root)), norm_text(d.get("caused_by", ""), root),
            tuple(subs))


def outcome(res, root):
    """what the property compares: class, success, bytecode, multiset of diagnostics"""
    if res.get("class") != "done":
        return {"class": res.get("class"), "ok": None, "code": None, "diags": []}
    diags = sorted(diag_key(d, root) for d in res.get("diags", []))
    return {"class": "done", "ok": res.get("ok"), "code": sha(res.get("code", "").encode()),
            "diags": diags}


def diff_outcomes(a, b):
    """list of (clause, detail) in which two outcomes differ"""
    out = []
    if a["class"] != b["class"]:
        out.append(("class", f'{a["class"]} vs {b["class"]}'))
        return out
    if a["class"] != "done":
        return out
    if a["ok"] != b["ok"]:
        out.append(("success", f'{a["ok"]} vs {b["ok"]}'))
    if a["code"] != b["code"]:
        out.append(("bytecode", f'{a["code"]} vs {b["code"]}'))
    if a["diags"] != b["diags"]:
        sa, sb = list(a["diags"]), list(b["diags"])
        only_a = [d for d in sa if d not in sb]
        only_b = [d for d in sb if d not in sa]
        out.append(("diagnostics", json.dumps({"only_first": only_a[:3], "only_second": only_b[:3]})[:1500]))
    return out


def schedule_seeds(seed, prop, idx, k):
    r = SplitMix.derive(seed, prop + "/sched", idx)
    return [r.seed64() for _ in range(k)]


def run_python(pyc, timeout=30):
    try:
        p = subprocess.run([PY_EXE, pyc], capture_output=True, text=True, timeout=timeout,
                           env={"PYTHONHASHSEED": "0", "PATH": os.environ.get("PATH", "")})
    except subprocess.TimeoutExpired:
        return None, "", "timeout"
    return p.returncode, p.stdout, p.stderr


# ------------------------------------------------------------------------------------
# one project, all its runs
# ------------------------------------------------------------------------------------

def explore_project(prop, proj, sched_seeds, w, d, want_seq=True, want_exec=False, extra_args=None, asan_every=0):
    """runs the reference build(s) and one simulated build per schedule seed; returns a list of
    run records {kind, seed, res, out}"""
    extra_args = extra_args or []
    pdir = os.path.join(d, "proj")
    write_project(proj, pdir)
    runs = []
    if want_seq:
        res = run_simc(SEQC, pdir, w, ["--sched", "default"])
        runs.append({"kind": "seq", "seed": 0, "res": res})
    pyc = os.path.join(pdir, "out_default.pyc")
    res = run_simc(SIMC, pdir, w, ["--sched", "default", "--pyc", pyc])
    runs.append({"kind": "default", "seed": 0, "res": res, "pyc": pyc})
    for i, s in enumerate(sched_seeds):
        if isinstance(s, dict):
            # an explicit schedule: the deviations from the default policy, nothing drawn
            df = os.path.join(d, f"devs_{i}.json")
            with open(df, "w") as fh:
                json.dump(s["deviations"], fh)
            extra = ["--sched", "explicit", "--devs-in", df] + extra_args
            s = 0
        else:
            extra = ["--sched", "swarm", "--seed", str(s)] + extra_args
        rec = {"kind": "swarm" if s else "explicit", "seed": s}
        if want_exec and i < 2:
            rec["pyc"] = os.path.join(pdir, f"out_{i}.pyc")
            extra += ["--pyc", rec["pyc"]]
        use_asan = asan_every and i % asan_every == asan_every - 1
        if use_asan:
            rec["kind"] = "swarm_asan"
        rec["res"] = run_simc(ASAN_BIN if use_asan else SIMC, pdir, w, extra)
        runs.append(rec)
    for r in runs:
        if r["res"].get("class") == "done" and r["res"].get("dir") != MOUNT_AT:
            raise HarnessError("bind mount of the project directory failed: " + str(r["res"].get("dir")))
        r["out"] = outcome(r["res"], MOUNT_AT)
    return runs, pdir


def c19_judge(runs):
    """every run must agree with the first (the sequential build)"""
    ref = runs[0]
    bad = []
    for r in runs[1:]:
        diffs = diff_outcomes(ref["out"], r["out"])
        if diffs:
            bad.append({"ref": ref["kind"], "run": r["kind"], "seed": r["seed"], "diffs": diffs})
    return bad


def c20_judge(proj, runs):
    """every run terminates without panic/hang/signal; each reachable module analysed exactly once;
    an error-free project has no error diagnostics and its program prints every tag once and the
    expected checksum"""
    bad = []
    error_free = not proj["errors"]
    for r in runs:
        res = r["res"]
        cls = res.get("class")
        if cls != "done":
            detail = cls
            if cls == "panic":
                detail = "panic: " + "; ".join(res.get("stats", {}).get("panics", []))[:400]
            bad.append({"run": r["kind"], "seed": r["seed"], "clause": "terminates", "detail": detail})
            continue
        # analysed exactly once
        analysed = {}
        for name, data in res.get("probe_log", []):
            if name == "analysis":
                path = data.split(" @")[0]
                analysed[path] = analysed.get(path, 0) + 1
        multi = {os.path.basename(p): n for p, n in analysed.items()
                 if n != 1 and not p.endswith(".d.er")}
        if multi:
            bad.append({"run": r["kind"], "seed": r["seed"], "clause": "analysed_once",
                        "detail": json.dumps(multi, sort_keys=True)})
        want = {m + ".er" for m in proj["tags"] if m != "main"}
        got = {os.path.basename(p) for p in analysed if p.endswith(".er") and not p.endswith(".d.er")}
        if want - got:
            bad.append({"run": r["kind"], "seed": r["seed"], "clause": "analysed_all",
                        "detail": "never analysed: " + ",".join(sorted(want - got))})
        errs = [d for d in res.get("diags", []) if d["sev"] == "error"]
        if error_free:
            if errs or not res.get("ok"):
                msgs = sorted({norm_text(e["msg"])[:120] for e in errs})
                bad.append({"run": r["kind"], "seed": r["seed"], "clause": "spurious_error",
                            "detail": " | ".join(msgs)[:600]})
            elif r.get("pyc"):
                rc, out, err = run_python(r["pyc"])
                tags = sorted(l for l in out.split("\n") if l.startswith("TAG_"))
                want_tags = sorted("TAG_" + m for m in proj["tags"])
                req_tags = sorted("TAG_" + m for m in proj.get("tags_required", proj["tags"]))
                if tags != want_tags and len(set(tags)) == len(tags) and set(req_tags) <= set(tags) <= set(want_tags):
                    # modules that are only ever imported without being used may be elided
                    # (tests/should_ok/many_import/unused_import.er): at most once is all that is asked
                    want_tags = tags
                result = [l for l in out.split("\n") if l.startswith("RESULT ")]
                result_ok = result == [f'RESULT {proj["expect"]["result"]}'] or proj["expect"].get("result") is None
                if rc is not None and rc < 0 and tags == want_tags and result_ok:
                    # everything was printed, then the interpreter itself died
                    bad.append({"run": r["kind"], "seed": r["seed"], "clause": "interpreter_dies_at_exit",
                                "detail": f"python: signal {-rc} after complete and correct output"})
                elif rc != 0:
                    bad.append({"run": r["kind"], "seed": r["seed"], "clause": "program_runs",
                                "detail": (err.strip().split("\n") or ["?"])[-1][:300] or f"rc={rc}"})
                elif tags != want_tags:
                    bad.append({"run": r["kind"], "seed": r["seed"], "clause": "top_level_once",
                                "detail": f"tags {tags} want {want_tags}"})
                elif proj["expect"].get("result") is not None and result != [f'RESULT {proj["expect"]["result"]}']:
                    bad.append({"run": r["kind"], "seed": r["seed"], "clause": "declared_values",
                                "detail": f'{result} want RESULT {proj["expect"]["result"]}'})
    return bad


# ------------------------------------------------------------------------------------
# the two checks
# ------------------------------------------------------------------------------------

TIERS = {
    # projects, schedules per project
    "C19": {"quick": (220, 6), "thorough": (700, 12)},
    "C20": {"quick": (260, 5), "thorough": (700, 10)},
}

GEN_OPTS = {
    "C19": {"label": "C19", "p_errors": 0.4, "p_poly": 0.12, "p_infer_fail": 0.12,
            "shapes": ["dag", "dag", "dag", "chain", "diamond", "fanout", "fanout", "self", "cycle2", "idlefan"]},
    "C20": {"label": "C20", "p_errors": 0.15, "p_poly": 0.05,
            "shapes": ["dag", "dag", "chain", "diamond", "fanout", "self", "cycle2", "cycle2",
                       "cycle2_outside", "cycle3", "twocycles", "idlefan", "overlap"]},
}


def judge(prop, proj, runs):
    if prop == "C19":
        return [dict(b, clause=b["diffs"][0][0], detail=b["diffs"][0][1]) for b in c19_judge(runs)]
    return c20_judge(proj, runs)


def _template(detail):
    """the shape of a detail text: numbers and generated identifiers abstracted away"""
    import re
    t = str(detail)
    t = re.sub(r"\b(m|v|s|f|g|w|C|u_|o_|_p|_q|_l|x|y|n)[A-Za-z_]*\d+\w*", "ID", t)
    t = re.sub(r"\d+", "N", t)
    return t[:160]


def signature(prop, proj, bad):
    """violation class of a project: the oracle clauses that failed, each with the shape of its
    detail (so that minimisation cannot drift to a different failure of the same clause)"""
    out = set()
    for b in bad:
        if b["clause"] in ("bytecode", "class"):
            out.add(b["clause"] + ":" + _template(b.get("detail") if b["clause"] == "class" else ""))
        elif b["clause"] == "diagnostics":
            out.add("diagnostics")
        elif b["clause"] == "spurious_error":
            for part in str(b.get("detail", "")).split(" | "):
                out.add("spurious_error:" + _template(part))
        else:
            out.add(b["clause"] + ":" + _template(b.get("detail", "")))
    return sorted(out)


def explore_one(prop, seed, idx, k, w, d, asan_every=0):
    proj = gen_project(seed, idx, GEN_OPTS[prop])
    seeds = schedule_seeds(seed, prop, idx, k)
    runs, pdir = explore_project(prop, proj, seeds, w, d, want_seq=True, want_exec=(prop == "C20"),
                                 asan_every=asan_every)
    bad = judge(prop, proj, runs)
    # determinism self-check on a sample: same seed, same binary => same event-log hash
    mismatch = None
    if idx % 25 == 0 and seeds:
        r0 = next(r for r in runs if r["kind"] == "swarm")
        again = run_simc(SIMC, pdir, w, ["--sched", "swarm", "--seed", str(r0["seed"])])
        h0 = r0["res"].get("stats", {}).get("log_hash")
        h1 = again.get("stats", {}).get("log_hash")
        if h0 != h1 or r0["res"].get("class") != again.get("class"):
            mismatch = {"idx": idx, "seed": r0["seed"], "h0": h0, "h1": h1,
                        "c0": r0["res"].get("class"), "c1": again.get("class")}
    stats = []
    for r in runs:
        st = r["res"].get("stats") or {}
        stats.append({
            "kind": r["kind"], "hash": st.get("log_hash"), "steps": st.get("steps", 0),
            "sim_us": st.get("sim_time_us", 0), "choice": st.get("choice_points", 0),
            "faults": st.get("faults", {}), "probes": st.get("probes", {}),
            "threads": st.get("threads", 0), "sites": st.get("sites", {}), "class": r["res"].get("class"),
        })
    return {"idx": idx, "proj": proj, "bad": bad, "stats": stats, "mismatch": mismatch,
            "resampled": 1 if (idx % 25 == 0 and seeds) else 0}


_ASAN_MIN = {"on": 0}


def still_fails(prop, proj, seeds, w, d, sig, extra=None):
    if extra is not None:
        extra["left"] -= 1
    runs, _ = explore_project(prop, proj, seeds, w, d, want_seq=True, want_exec=(prop == "C20"),
                              asan_every=_ASAN_MIN.get(id(proj), 0) or proj.get("_asan", 0))
    bad = judge(prop, proj, runs)
    return bool(bad) and (set(signature(prop, proj, bad)) & set(sig)), bad


def minimise(prop, proj, seeds, bad, w, d, budget_s=120):
    """shrink the failing project (drop modules, then lines) and the schedule-seed list while
    the same violation class persists; deterministic given its inputs"""
    # budgets are counts of builds, never wall-clock: the outcome of a check must not depend on
    # how loaded the machine is
    budget = {"left": budget_s}
    sig = signature(prop, proj, bad)
    fseeds = [b["seed"] for b in bad if b.get("seed")]
    if any(b.get("run") == "swarm_asan" for b in bad):
        # seen in a run of the sanitizer build: only when the plain build does not show the same
        # failure on the same seeds is the (5-10 times slower) sanitizer build used for every
        # re-build, and then with a small budget
        if not still_fails(prop, proj, sorted(set(fseeds)), w, d, sig)[0]:
            proj = dict(proj, _asan=1)
            budget["left"] = min(budget["left"], 40)
    # 1. keep only schedule seeds that matter (at most the failing ones)
    seeds = sorted(set(fseeds))[:2] if fseeds else []
    ok, b2 = still_fails(prop, proj, seeds, w, d, sig)
    if not ok:
        seeds = sorted(set(fseeds)) or seeds
        ok, b2 = still_fails(prop, proj, seeds, w, d, sig)
        if not ok:
            return proj, seeds, bad, sig
    bad = b2
    cur = json.loads(json.dumps(proj))

    def importers(p, m):
        return [f for f, t in p["files"].items() if f != m + ".er" and f'import "{m}"' in t]

    def drop_unimported(p):
        q = json.loads(json.dumps(p))
        again = True
        while again:
            again = False
            for m in [t for t in q["tags"] if t != "main"]:
                if not importers(q, m):
                    del q["files"][m + ".er"]
                    q["tags"] = [t for t in q["tags"] if t != m]
                    q["tags_required"] = [t for t in q.get("tags_required", q["tags"]) if t != m]
                    q["graph"] = {k: [x for x in v if x != m] for k, v in q.get("graph", {}).items() if k != m}
                    again = True
        return q

    # 3. drop definitions nobody refers to (so that no new error can be introduced), asserts,
    #    and terms of main's checksum; repeat to a fixpoint
    import re

    def units(p):
        """(file, [line indices]) groups that may be removed together"""
        out = []
        for f, text in p["files"].items():
            lines = text.split("\n")
            mod = f[:-3]
            byname = {}
            i = 0
            while i < len(lines):
                l = lines[i]
                mm = re.match(r"^\.?([A-Za-z_][\w!]*)", l)
                if l.startswith("assert "):
                    out.append((f, [i], None))
                elif re.match(r'^(\w+) = (py)?import "', l):
                    out.append((f, [i], "import:" + re.match(r"^(\w+) = ", l).group(1)))
                elif l.startswith("print! ") or l.startswith("result: ") or not mm:
                    pass
                else:
                    name = mm.group(1)
                    idxs = [i]
                    # a class: `.C = Class ...`, `.C.` and the indented method lines
                    j = i + 1
                    while j < len(lines) and (lines[j].startswith("    ") or lines[j].startswith("." + name + ".")):
                        idxs.append(j)
                        j += 1
                    byname.setdefault(name, []).extend(idxs)
                    i = j - 1
                i += 1
            for name, idxs in byname.items():
                out.append((f, sorted(set(idxs)), name))
        return out

    def referenced(p, f, idxs, name):
        if name is None:
            return False
        if name.startswith("import:"):
            alias = name[len("import:"):]
            return any(re.search(r"\b%s\." % re.escape(alias), l)
                       for k, l in enumerate(p["files"][f].split("\n")) if k not in idxs)
        mod = f[:-3]
        for g, text in p["files"].items():
            for k, l in enumerate(text.split("\n")):
                if g == f and k in idxs:
                    continue
                if g == f and re.search(r"(?<![\w.])\.?%s\b" % re.escape(name), l):
                    return True
                if g != f and re.search(r"\b%s\.%s\b" % (mod, re.escape(name)), l):
                    return True
        return False

    changed = True
    while changed and budget["left"] > 0:
        changed = False
        for f, idxs, name in units(cur):
            if budget["left"] <= 0:
                break
            if referenced(cur, f, idxs, name):
                continue
            q = json.loads(json.dumps(cur))
            lines = q["files"][f].split("\n")
            q["files"][f] = "\n".join(l for k, l in enumerate(lines) if k not in idxs)
            q["expect"] = {"result": None}
            q = drop_unimported(q)
            ok, b2 = still_fails(prop, q, seeds, w, d, sig, budget)
            if ok:
                cur, bad, changed = q, b2, True
                break
        if changed:
            continue
        # terms of the checksum line
        for f, text in cur["files"].items():
            for k, l in enumerate(text.split("\n")):
                if not l.startswith("result: Int = "):
                    continue
                terms = l[len("result: Int = "):].split(" + ")
                for ti in range(len(terms)):
                    if len(terms) <= 1 or budget["left"] <= 0:
                        break
                    q = json.loads(json.dumps(cur))
                    ls = q["files"][f].split("\n")
                    ls[k] = "result: Int = " + " + ".join(t for j, t in enumerate(terms) if j != ti)
                    q["files"][f] = "\n".join(ls)
                    q["expect"] = {"result": None}
                    ok, b2 = still_fails(prop, q, seeds, w, d, sig, budget)
                    if ok:
                        cur, bad, changed = q, b2, True
                        break
                if changed:
                    break
            if changed:
                break
    ok, b2 = still_fails(prop, cur, seeds, w, d, sig)
    if ok:
        bad = b2
    else:
        cur = proj
    return cur, seeds, bad, sig


def minimise_schedule(prop, proj, seeds, bad, w, d, sig, budget):
    """the failing seeded schedule as an explicit list of deviations from the default policy
    (choices of who runs, injected faults), delta-debugged while the same violation persists.
    Returns None when the failure does not come from a seeded run or does not replay explicitly."""
    fseeds = [b["seed"] for b in bad if b.get("seed") and b.get("run", "").startswith("swarm")]
    if not fseeds:
        return None
    seed = fseeds[0]
    pdir = os.path.join(d, "proj")
    write_project(proj, pdir)
    binary = ASAN_BIN if proj.get("_asan") else SIMC
    res = run_simc(binary, pdir, w, ["--sched", "swarm", "--seed", str(seed)])
    devs = res.get("deviations")
    if devs is None:
        return None

    def fails(ds):
        ok, b = still_fails(prop, proj, [{"deviations": ds}], w, d, sig, budget)
        return ok

    if not fails(devs):
        return None
    n0 = len(devs)
    if budget["left"] > 2:
        devs = ddmin(devs, lambda sub: budget["left"] > 0 and fails(sub), max_tests=max(1, budget["left"]))
    log(f"      schedule of seed {seed}: {n0} deviations -> {len(devs)}")
    return devs


def c20_judge_relaxed(proj, runs):
    return c20_judge(proj, runs)


def shape_predicates(proj):
    """recomputed on the (minimised) project from its files: the import graph is read back from
    the sources, not trusted from the generator's flags"""
    import re
    g = {}
    for f, text in proj["files"].items():
        m = f[:-3]
        g[m] = sorted(set(re.findall(r'import "(\w+)"', text)) & {x[:-3] for x in proj["files"]})
    # cycles by DFS
    cyc_len = 0
    members = set()

    def dfs(start, node, path):
        nonlocal cyc_len
        for nx in g.get(node, []):
            if nx == start and len(path) >= 1:
                if len(path) > 1 or node != start:
                    cyc_len = max(cyc_len, len(path))
                    members.update(path)
            elif nx not in path and len(path) < 8:
                dfs(start, nx, path + [nx])

    for s in g:
        dfs(s, s, [s])
    # two different simple cycles sharing an edge
    cycles = []

    def walk(start, node, path):
        for nx in g.get(node, []):
            if nx == start:
                cycles.append(tuple(path))
            elif nx not in path and nx > start and len(path) < 8:
                walk(start, nx, path + [nx])

    for s0 in sorted(g):
        walk(s0, s0, [s0])
    def edges(c):
        return {(c[i], c[(i + 1) % len(c)]) for i in range(len(c))}
    overlapping = any(edges(c1) & edges(c2) for i, c1 in enumerate(cycles) for c2 in cycles[i + 1:]
                      if set(c1) != set(c2) or len(c1) != len(c2))
    outside = False
    for m in members:
        for o in g:
            if o not in members and o != "main" and m in g[o]:
                outside = True
    has_class_in_cycle = any("Class" in proj["files"][m + ".er"] for m in members)
    typed_pub_in_cycle = any(re.search(r"^\.\w+: ", proj["files"][m + ".er"], re.M) for m in members)
    # an importer refers to a cycle member inside a definition (public binding or function body)
    member_in_def = False
    for f, text in proj["files"].items():
        if f[:-3] in members:
            continue        # partners calling each other from function bodies is the corpus style
        for line in text.split("\n"):
            if line.startswith(".") and any(re.search(r"\b%s\." % m, line.split("=", 1)[-1]) for m in members if m != f[:-3]):
                member_in_def = True
    single_clause_fn_in_cycle = any(
        re.search(r"^\.\w+\(\w+: \w+\)[^=]*= .*\b\w+\.\w+\(", proj["files"][m + ".er"], re.M) for m in members)
    return {
        "has_cycle": bool(members), "has_cycle_ge3": cyc_len >= 3,
        "cycle_member_imported_from_outside": outside,
        "rich_cycle": bool(members) and (has_class_in_cycle or typed_pub_in_cycle or proj.get("flags", {}).get("rich_cycle", False)),
        "cycle_beyond_corpus_style": bool(members) and (has_class_in_cycle or typed_pub_in_cycle or member_in_def
                                                          or single_clause_fn_in_cycle),
        "poly": bool(re.search(r"^\.(id|tw)\w+ ", "\n".join(proj["files"].values()), re.M)),
        "infer_fail": bool(re.search(r"^\.us\w+ x = ", "\n".join(proj["files"].values()), re.M)),
        "modules": len(proj["files"]), "overlapping_cycles": overlapping,
    }


def match_known(prop, proj, sig, bad, known):
    preds = shape_predicates(proj)
    details = " ".join(str(b.get("detail", "")) for b in bad)
    for e in known:
        m = e.get("match", {})
        if m.get("clauses") and not all(any(x.startswith(c) for c in m["clauses"]) for x in sig):
            continue
        if any(not preds.get(p) for p in m.get("predicates", [])):
            continue
        if m.get("detail_regex"):
            import re
            if not all(re.search(m["detail_regex"], str(b.get("detail", ""))) for b in bad):
                continue
        return e
    return None


def run_check(prop, tier, seed, replay=None):
    t0 = time.time()
    build(["simc", "seqc"])
    report = Report(prop)
    known = load_known(prop)
    if replay:
        return replay_file(prop, replay, report)
    nproj, k = TIERS[prop][tier]
    asan_every = 4 if (tier == "thorough" and build_asan()) else 0
    pool = Pool(prop.lower())
    wall_cap = t0 + (2400 if tier == "quick" else 9000)
    try:
        results = pool.map(lambda idx, w, d: explore_one(prop, seed, idx, k, w, d, asan_every),
                           list(range(nproj)), deadline=wall_cap)
        results = [r for r in results if r is not None]
        # determinism self-check
        mism = [r["mismatch"] for r in results if r["mismatch"]]
        if mism:
            log("determinism self-check failed:", json.dumps(mism[:3]))
            raise HarnessError("same seed gave different event-log hashes")
        failing = [r for r in results if r["bad"]]
        log(f"[{prop}] {len(results)} projects, {len(failing)} with oracle failures; minimising")
        for r in failing[:40]:
            log(f'   project {r["idx"]} shape={r["proj"]["shape"]} flags={[k for k, v in r["proj"]["flags"].items() if v]} '
                f'{signature(prop, r["proj"], r["bad"])}')
        # minimise (in parallel, bounded), then classify
        def mini(r, w, d):
            seeds = schedule_seeds(seed, prop, r["idx"], k)
            # the budget is a number of re-builds, scaled down for projects whose builds are long
            # (hook steps are deterministic, wall-clock is not)
            avg_steps = max(1, sum(x["steps"] for x in r["stats"]) // max(1, len(r["stats"])))
            budget = max(3, min(60 if tier == "quick" else 250, 3_000_000 // avg_steps))
            proj, seeds2, bad, sig = minimise(prop, r["proj"], seeds, r["bad"], w, d, budget_s=budget)
            devs = minimise_schedule(prop, proj, seeds2, bad, w, d, sig, {"left": max(3, budget // 2)})
            return {"idx": r["idx"], "proj": proj, "seeds": seeds2, "bad": bad, "sig": sig,
                    "orig_shape": r["proj"]["shape"], "deviations": devs}
        minis = pool.map(mini, failing[:64])
        nviol = 0
        seen_sigs = set()
        for m in minis:
            e = match_known(prop, m["proj"], m["sig"], m["bad"], known)
            if e:
                report.known(e, replay={
                    "engine": "simc", "verif_seed": seed, "project_index": m["idx"],
                    "workload": {"files": m["proj"]["files"], "tags": m["proj"]["tags"],
                                 "tags_required": m["proj"].get("tags_required", m["proj"]["tags"]),
                                 "errors": m["proj"].get("errors", []), "expect": m["proj"].get("expect")},
                    "schedule_seeds": m["seeds"], "asan": bool(m["proj"].get("_asan")),
                    "deviations": m.get("deviations"),
                    "expect": {"clauses": m["sig"], "first": m["bad"][0] if m["bad"] else None}})
                continue
            key = (tuple(m["sig"]), sha(m["proj"]["files"]))
            if key in seen_sigs:
                continue
            seen_sigs.add(key)
            nviol += 1
            path = write_replay(prop, {
                "engine": "simc", "verif_seed": seed, "project_index": m["idx"],
                "workload": {"files": m["proj"]["files"], "tags": m["proj"]["tags"],
                             "tags_required": m["proj"].get("tags_required", m["proj"]["tags"]),
                             "errors": m["proj"].get("errors", []), "expect": m["proj"].get("expect")},
                "schedule_seeds": m["seeds"], "asan": bool(m["proj"].get("_asan")),
                # the minimised schedule and fault trace: deviations from the default policy (replayed in
                # explicit mode); null when the failure needs no seeded schedule or did not replay explicitly
                "deviations": m.get("deviations"),
                "expect": {"clauses": m["sig"], "first": m["bad"][0] if m["bad"] else None},
            })
            report.violation(f'clauses={m["sig"]} shape={m["orig_shape"]} '
                             f'first={json.dumps(m["bad"][0])[:300] if m["bad"] else ""}', path)
        # unminimised overflow
        for r in failing[64:]:
            report.violation(f'(not minimised) project {r["idx"]} {signature(prop, r["proj"], r["bad"])}',
                             write_replay(prop, {"engine": "simc", "verif_seed": seed, "project_index": r["idx"],
                                                 "workload": {"files": r["proj"]["files"], "tags": r["proj"]["tags"],
                                                              "errors": r["proj"]["errors"], "expect": r["proj"]["expect"]},
                                                 "schedule_seeds": schedule_seeds(seed, prop, r["idx"], k),
                                                 "expect": {"clauses": signature(prop, r["proj"], r["bad"])}}))
        write_builder_evidence(prop, tier, seed, results, k, time.time() - t0, report)
    finally:
        pool.close()
    return report.finish()


def write_builder_evidence(prop, tier, seed, results, k, wall, report):
    evals = 0
    distinct = set()
    steps = 0
    sim_us = 0
    faults = {}
    probes = {}
    sites = {}
    classes = {}
    shapes = {}
    resampled = 0
    for r in results:
        shapes[r["proj"]["shape"]] = shapes.get(r["proj"]["shape"], 0) + 1
        resampled += r["resampled"]
        ph = sha(r["proj"]["files"])
        for s in r["stats"]:
            evals += 1
            steps += s["steps"]
            sim_us += s["sim_us"]
            classes[s["class"]] = classes.get(s["class"], 0) + 1
            for kk, v in s["faults"].items():
                faults[kk] = faults.get(kk, 0) + v
            for kk, v in s["probes"].items():
                probes[kk] = probes.get(kk, 0) + v
            for kk, v in s["sites"].items():
                sites[kk] = sites.get(kk, 0) + v
            nontrivial = s["choice"] >= 1 or (prop == "C20" and r["proj"]["flags"].get("has_cycle"))
            if nontrivial and s["hash"]:
                distinct.add((ph, s["hash"]))
    samples = []
    for r in results[:3]:
        samples.append({"project_index": r["idx"], "shape": r["proj"]["shape"], "graph": r["proj"]["graph"],
                        "errors_injected": r["proj"]["errors"],
                        "main.er": r["proj"]["files"]["main.er"][:600],
                        "runs": [{"kind": s["kind"], "log_hash": s["hash"], "steps": s["steps"],
                                  "faults": s["faults"]} for s in r["stats"][:4]]})
    coverage = {
        "evaluations": evals,
        "distinct_nontrivial": len(distinct),
        "rule": ("one evaluation = one build of one generated project under one schedule (seqc sequential, simc default, "
                 f"simc x{k} swarm seeds); distinct by (project hash, event-log hash); non-trivial when >=2 threads "
                 "were runnable at the same step at least once" + (" or the import graph has a cycle" if prop == "C20" else "")),
        "samples": samples,
        "projects": len(results), "schedules_per_project": k + 2, "shapes": shapes,
        "runs_per_hour": int(evals / max(wall, 1e-9) * 3600),
        "sim_time_total_s": round(sim_us / 1e6, 3), "steps_total": steps,
        "faults_fired": faults, "probes": probes, "hook_sites_hit": sites, "run_classes": classes,
        "determinism_resamples": resampled,
        "components_real": COMPONENTS_REAL, "components_stubbed": COMPONENTS_STUBBED,
        "known_findings_hit": {k2: v[1] for k2, v in report.known_hits.items()},
        "exhaustive": False,
    }
    write_evidence(prop, tier, seed, "exploration", coverage, wall, len(report.violations), [
        "preemption only at hook points (Shared locks, fresh-name counter, VFS miss window, raw module-cache readers, spawn/exit, sleeps)",
        "finished analysis threads linger (no thread_local slot recycling)",
        "target interpreter CPython " + PY_VER + " only",
        "diagnostics compared as multisets after stripping ANSI codes, the project directory prefix and alpha-renaming anonymous type-variable numbers",
    ])


def replay_file(prop, path, report):
    with open(path) as fh:
        rp = json.load(fh)
    proj = {"files": rp["workload"]["files"], "tags": rp["workload"]["tags"],
            "tags_required": rp["workload"].get("tags_required", rp["workload"]["tags"]),
            "errors": rp["workload"].get("errors", []), "expect": rp["workload"].get("expect") or {"result": None},
            "flags": {}}
    use_asan = 1 if (rp.get("asan") and build_asan()) else 0
    pool = Pool(prop.lower(), workers=1)
    try:
        def go(_, w, d):
            scheds = [{"deviations": rp["deviations"]}] if rp.get("deviations") is not None else rp["schedule_seeds"]
            runs, _pd = explore_project(prop, proj, scheds, w, d, want_seq=True,
                                        want_exec=(prop == "C20"), asan_every=use_asan)
            return judge(prop, proj, runs)
        bad = pool.map(go, [0])[0]
    finally:
        pool.close()
    sig = signature(prop, proj, bad) if bad else []
    if bad and {x.split(":")[0] for x in sig} & {x.split(":")[0] for x in rp["expect"]["clauses"]}:
        print(f"VIOLATION property={prop} replay={path}")
        print(f"  reproduced: clauses={sig} first={json.dumps(bad[0])[:300]}")
        return 1
    print(f"replay did not reproduce: expected {rp['expect']['clauses']}, got {sig}")
    return 2
