"""writes /verif/MANIFEST.json (run by hand when the set of checks changes)"""
import json, os, subprocess, sys
V = os.path.dirname(os.path.dirname(os.path.abspath(__file__)))
NA = {
 "C01": "pure function of one program text (compiled output vs an independent translator): no schedule, clock, fault or interleaving in the statement",
 "C02": "pure function of a program and operand values (no run-time type errors)",
 "C03": "pure judgement on pairs of refinement predicates; an SMT oracle, not a simulator, decides it",
 "C04": "pure function of a constant expression (compile-time evaluation)",
 "C05": "pure function of one program text (definite static errors are rejected)",
 "C06": "pure judgement on triples of types (subtyping preorder)",
 "C07": "single-module, single-thread, input-quantified (checker/codegen never crash); the schedule-dependent crashes are covered under C20",
 "C08": "pure function of a string (lexer totality)",
 "C09": "pure function of a string and a fixed stack size (parser totality / depth); no fault involved",
 "C10": "pure (parse insensitive to layout)",
 "C11": "pure (operator precedence)",
 "C12": "program x configuration, no interleaving (optimisation levels agree)",
 "C13": "program x interpreter version; nothing in the statement depends on timing or faults, and only CPython 3.11 is installed",
 "C14": "pure function of program and target (code objects structurally valid)",
 "C16": "static tables compared with interpreters (opcode / magic tables)",
 "C17": "pure (transpiled Python vs bytecode)",
 "C18": "pure (JSON target)",
 "C22": "pure (effect checker)",
 "C23": "pure (ownership checker)",
 "C24": "pure function of the source text (diagnostic locations)",
 "C26": "pure functions of operands (runtime classes vs Python)",
 "C27": "static data compared with interpreters (std-lib declarations)",
 "C30": "function of an analysed program and a position; the rename handler runs synchronously in the dispatcher on a quiescent server",
 "C31": "purely lexical (path normalisation never touches the file system)",
 "C32": "pure (predicate combinators)",
 "C33": "pure function of program and scrutinee value (match exhaustiveness)",
 "C34": "pure function of the program (inferred types describe run-time values)",
}
CHECKS = {
 "C15": dict(engine="simio", level="fault_enumeration", design="4 C15",
   technique="stored-image fault enumeration: what File::create + write_all without fsync can leave after a crash, a full disk or bit rot (every truncation, sector holes, bit flips, overwritten length fields, seeded combinations) read back by the real .pyc reader; completed images unmarshalled by CPython",
   text="For seeded code-object trees (all constant kinds incl. integers beyond 32/63 bits, -0.0/inf/NaN, ASCII/BMP/astral strings, nested tuples and code objects with closures) and for code objects the real compiler produces for generated multi-module projects: every truncation offset is enumerated exhaustively, every 16/64/512/4096-byte sector is zeroed or removed, every single bit is flipped for small images (sampled for larger), 4-byte fields are overwritten with boundary values, and seeded multi-fault combinations are applied; the reader must return Ok or the broken-file error - never panic, abort, overflow the stack or allocate beyond the 2 GiB limit. Each complete image must read back, re-serialise to the same bytes, and be unmarshalled by CPython to equal constants of the same type.",
   note="Applies to the storage half of C15 plus read-back of completed writes; read-side I/O errors are not injected (no seam below File); CPython 3.11 only; an Ok on a damaged image is not a violation. Trusted: the image transformer, py/pyc_oracle.py."),
 "C19": dict(engine="simthread", level="exploration", design="4 C19",
   technique="deterministic simulation: seeded random/PCT schedules + stall/late-start/late-timer faults over the real package builder; differential oracle against the sequential (PARALLEL=false) build",
   text="Seeded exploration: generated multi-module projects, each built sequentially, under the default schedule and under K seeded schedules with thread faults; bytecode (bytes 16..), success and the multiset of diagnostics must agree. Sampling, not proof: a clean batch is evidence that no schedule dependence exists among the explored interleavings.",
   note="Preemption only at hook points (Shared locks, fresh-name counter, VFS miss window, raw module-cache readers, spawn/exit/sleep); finished threads linger; CPython 3.11 target only; trusted: simrt scheduler, Python orchestrator, project generator."),
 "C20": dict(engine="simthread", level="exploration", design="4 C20",
   technique="deterministic simulation: seeded schedules and thread faults over the real package builder; invariants during the run (no panic, no lock time-out, bounded simulated time, each module analysed once) and execution of the produced .pyc",
   text="Seeded exploration of generated import graphs (DAG, chain, diamond, fan-out, self-import, 2-/3-cycles, shared-node cycles) under seeded schedules: every run must terminate (panic, signal, lock time-out, simulated-time cap and step cap are violations), analyse each module exactly once, report no error for an error-free project, and the program must print every module tag once and the checksum the generator computed.",
   note="Liveness is bounded simulated time (600 s cap) - never 'within K steps while faults flow'; cycle members are generated in the style of tests/should_ok/cyclic (richer cycles are a listed known finding); trusted: simrt, orchestrator, generator's own arithmetic."),
 "C25": dict(engine="simio", level="fault_enumeration", design="4 C25",
   technique="deterministic simulation of the client/server byte stream: seeded short reads/writes on both sides, EINTR, peer stall; exhaustive enumeration of all cut patterns of short frames; results checked against inputs by unique tags",
   text="Layer 1 enumerates every split of every frame of <= 12 wire bytes (2^(n-1) cut patterns) for both the Rust and the Python MessageStream and adds seeded splits/EINTR for frames up to 210 KB (sizes massed at 65534-65537). Layer 2 runs REPL histories (1-12 inputs, 0-200 KB sources and outputs) through the real DummyVM client and the real repl_server.py in lock-step under seeded split/EINTR/stall sequences: every input must get exactly its own result, in order.",
   note="No loss/duplication/reordering (TCP); EINTR only on the Rust side; expected strings from templates calibrated on five small inputs; trusted: py/repl_node.py's fake socket module, the harness's byte queues."),
 "C28": dict(engine="simthread", level="exploration", design="4 C28",
   technique="deterministic simulation of the whole language server (about 30 threads) under seeded schedules and thread faults; reference-document oracle (UTF-16 model) after every notification",
   text="Seeded exploration: notification histories (1-3 documents with ASCII/BMP/astral text, 1-30 didChange notifications of 1-3 range changes, requests in flight, think-times around the 500 ms poll) are dispatched to the real server under one seeded schedule each; after every notification and at quiescence the server's FileCache and VFS copies must equal the client's document; no thread may panic, no lock may time out, and a closing request must be answered within 5 s of simulated time.",
   note="LSP transport ordered and reliable (no transport faults); positions on code-point boundaries, \\n line ends, lines inside the document; trusted: the Python reference document, simrt."),
 "C29": dict(engine="simthread", level="exploration", design="4 C29",
   technique="deterministic simulation with a simulated clock: edit histories with seeded think-times against the real server under seeded schedules, differential oracle against a fresh server that only opens the final text",
   text="Seeded exploration: edit histories that add, delete and modify top-level definitions (one or several per notification, optional didSave, auto-save off/afterDelay, think-times around the 500 ms auto-diagnostics poll, late timers) run under seeded schedules; at quiescence (3.5 s simulated after the last event) the last publishDiagnostics per document must equal, as a set of (range, severity, message) and - a separate clause - in multiplicities, what a freshly started server publishes for the final text. Nine histories in ten start editing two poll periods after didOpen, one in ten at once (on the unchanged tree an edit before the polling thread's first sight of a document is never analysed: known finding).",
   note="Quiescence = 3.5 s simulated after the last event (7 poll periods); the fresh twin runs under the default schedule; trusted: simrt, the orchestrator's diff."),
 "C21": dict(engine="simthread", level="exploration", design="4 C21",
   technique="deterministic simulation of 2-3 caller threads on the real SharedModuleGraph with Wing-Gong linearizability checking against a reference graph; plus operation-by-operation refinement checking of single-caller histories",
   text="Seeded histories over 6 paths: single-caller histories (<=40 ops) compared with a 60-line reference graph after every operation (return values and the full query matrix, ordering promise of sort); multi-caller histories (<=12 ops) interleaved by the simulator at the Shared lock hooks and checked for linearizability.",
   note="Usage protocol assumed (files not directories, edge targets registered, rename target not a node); trusted: the reference graph, the linearizability search, simrt."),
}
def main():
    commits = subprocess.run(["git", "-C", "/repo", "log", "--format=%H %s", "affbfc8a..HEAD"], capture_output=True, text=True).stdout.strip().split("\n")
    hooks = [c.split()[0] for c in commits if " verif hook:" in c]
    claimed = [c for c in sorted(CHECKS) if os.environ.get("ONLY") is None or c in os.environ["ONLY"].split(",")]
    pending = {}
    na = dict(NA)
    for k, v in pending.items():
        if k not in CHECKS:
            na[k] = v
    m = {
     "version": 1,
     "setup_cmd": "./check setup",
     "hooks": {
        "guard": "cargo feature erg_common/verif_sim (plus erg_common/verif_seq for the sequential reference build)",
        "enable": "path dependencies with features=[\"verif_sim\"] from /verif/sim/*/Cargo.toml; downstream crates reach the seams through macros exported by erg_common (sim_point!, sim_sleep!, sim_recv!, sim_probe!, sim_only!, ...) that expand to the original code when the feature is off",
        "baseline_off_cmd": "cd /repo && cargo nextest run --workspace --no-fail-fast --tool-config-file pb:/w/lib/nextest.toml --profile pb --test-threads 8 --offline || cargo test --workspace --no-fail-fast --offline",
        "source_commits": hooks,
        "add_only": False,
     },
     "engines": [
        {"name": "simthread", "path": "sim/simrt", "serves_properties": ["C19", "C20", "C21", "C28", "C29"],
         "kind_free_text": "baton scheduler over real OS threads + discrete-event clock + seeded thread faults (simrt); harnesses simc/seqc (package builder), simgraph (dependency graph), simels (language server)"},
        {"name": "simio", "path": "sim/simrepl", "serves_properties": ["C15", "C25"],
         "kind_free_text": "seeded byte-stream splitting / EINTR / stalls between the real REPL client and the real Python server; stored-image faults (truncation, holes, bit flips) for .pyc files"},
     ],
     "checks": [
        {"property_id": c, "quick_cmd": f"./check {c} --tier quick", "thorough_cmd": f"./check {c} --tier thorough",
         "evidence_file": f"/verif/evidence/{c}.json", "replay_cmd_template": f"./check {c} --replay {{path}}",
         "engine": CHECKS[c]["engine"],
         "level_claimed": {"category": CHECKS[c]["level"], "text": CHECKS[c]["text"], "design_ref": "DESIGN.md section " + CHECKS[c]["design"]},
         "level_note": CHECKS[c]["note"], "technique": CHECKS[c]["technique"]}
        for c in claimed],
     "not_applicable": [{"property_id": k, "reason": v} for k, v in sorted(na.items())],
     "notes": "VERIF_SEED (default 1) and VERIF_TIER are honoured. Exit 2 = harness error. Known findings: /verif/known_findings.json.",
    }
    with open(os.path.join(V, "MANIFEST.json"), "w") as fh:
        json.dump(m, fh, indent=1)
if __name__ == "__main__":
    main()
