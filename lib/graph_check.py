"""C21: module dependency graph vs a reference graph (`simgraph`)."""

import json
import os
import time

from common import (Pool, Report, bin_path, build, load_known, log, run_json, sha, write_evidence,
                    write_replay, HarnessError)

SIMGRAPH = bin_path("simgraph")

TIERS = {
    # (single histories, multi histories), chunked over the workers
    "quick": (60_000, 12_000),
    "thorough": (1_200_000, 300_000),
}
CHUNK = {"single": 2500, "multi": 500}


def match_known(v, known):
    for e in known:
        m = e.get("match", {})
        if m.get("clause") and m["clause"] != v["clause"]:
            continue
        ops = [o[0] for o in v["workload"].get("ops", [])]
        if m.get("requires_op") and m["requires_op"] not in ops:
            continue
        if m.get("max_ops") and len(ops) > m["max_ops"]:
            continue
        return e
    return None


def run_check(tier, seed, replay=None):
    t0 = time.time()
    build(["simgraph"])
    report = Report("C21")
    known = load_known("C21")
    if replay:
        res, rc = run_json([SIMGRAPH, "--replay", replay])
        if res.get("violation"):
            print(f"VIOLATION property=C21 replay={replay}")
            print("  reproduced:", json.dumps(res["violation"])[:400])
            return 1
        print("replay did not reproduce")
        return 2
    nsingle, nmulti = TIERS[tier]
    tasks = []
    for mode, n in (("single", nsingle), ("multi", nmulti)):
        for start in range(0, n, CHUNK[mode]):
            tasks.append((mode, start, min(CHUNK[mode], n - start)))
    pool = Pool("c21")
    try:
        def go(t, w, d):
            mode, start, cnt = t
            res, rc = run_json([SIMGRAPH, "--mode", mode, "--seed", str(seed), "--from", str(start),
                                "--count", str(cnt), "--pin", str(w)], timeout=900)
            return res
        results = pool.map(go, tasks)
        # determinism: re-run two chunks and compare everything but nothing is timing dependent
        for t in (tasks[0], tasks[-1]):
            a = go(t, 0, None)
            b = results[tasks.index(t)]
            if json.dumps(a, sort_keys=True) != json.dumps(b, sort_keys=True):
                raise HarnessError("simgraph: same seed, different result")
    finally:
        pool.close()
    evals = 0
    distinct = 0
    ops_total = 0
    choice = 0
    lock_waits = 0
    samples = []
    viols = []
    for t, r in zip(tasks, results):
        if r.get("class") != "done":
            # the process died: a crash inside graph code is a violation of its own
            viols.append({"index": t[1], "mode": t[0], "clause": "crash:" + str(r.get("class")),
                          "workload": {"mode": t[0], "chunk_from": t[1], "count": t[2]}, "detail": r.get("stderr", "")[-500:]})
            continue
        evals += r["evaluations"]
        distinct += r["distinct_nontrivial"]
        ops_total += r["ops_total"]
        choice += r["choice_points"]
        lock_waits += r["lock_waits"]
        if len(samples) < 4 and r["samples"]:
            samples.append(r["samples"][0])
        viols += r["violations"]
    seen = set()
    for v in viols:
        e = match_known(v, known)
        if e:
            report.known(e)
            continue
        key = (v["clause"], sha(v["workload"]))
        if key in seen:
            continue
        seen.add(key)
        if len(seen) > 20:
            break
        path = write_replay("C21", {"engine": "simgraph", "verif_seed": seed, "workload": v["workload"],
                                    "deviations": v.get("deviations", []),
                                    "expect": {"clause": v["clause"], "detail": v.get("detail")}})
        report.violation(f'clause={v["clause"]} mode={v["mode"]} detail={json.dumps(v.get("detail"))[:300]}', path)
    wall = time.time() - t0
    coverage = {
        "evaluations": evals, "distinct_nontrivial": distinct,
        "rule": ("one evaluation = one operation history on a fresh graph: 'single' (<=40 ops over 6 paths + 3 rename-only "
                 "names, one caller, checked operation by operation and by the full query matrix after every mutation) or "
                 "'multi' (2-3 caller threads on one SharedModuleGraph, <=12 ops, interleaved by the simulator, checked for "
                 "linearizability). distinct by hash of the operations (single) / operations + event-log hash (multi); "
                 "non-trivial when it contains a mutation (and, for multi, at least one step at which two callers were runnable)"),
        "samples": samples, "histories_single": nsingle, "histories_multi": nmulti,
        "operations_total": ops_total, "multi_choice_points": choice, "multi_lock_waits": lock_waits,
        "runs_per_hour": int(evals / max(wall, 1e-9) * 3600),
        "components_real": ["erg_compiler::module::graph::{ModuleGraph, SharedModuleGraph}", "erg_common::tsort",
                            "erg_common::shared::Shared (parking_lot RwLock)"],
        "components_stubbed": ["OS scheduler -> baton scheduler", "lock waits -> simulated-time polling",
                               "the file system: the six paths do not exist (is_dir() is false, as for source files)"],
        "known_findings_hit": {k: v[1] for k, v in report.known_hits.items()},
        "exhaustive": False,
    }
    write_evidence("C21", tier, seed, "exploration", coverage, wall, len(report.violations), [
        "usage protocol: paths are files; the new name of a rename differs from the old one and is not currently a node; "
        "an edge's target has usually been registered (as PackageBuilder::register does) - in 15 % of single-caller inc_refs it has not",
        "the reference graph mirrors dangling edges (an edge to an unregistered path): queries stop at them, sort fails and leaves the graph unchanged",
        "concurrent callers add nodes and edges, remove nodes, rename onto never-used names, sort and query",
    ])
    return report.finish()
