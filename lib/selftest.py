"""./check selftest [--n N]: the simulator must be a pure function of (binary, workload, seed).
Every engine is run twice on the same seeds - once with 16 workers, once with 3 (different worker
directories, cores and degrees of machine load, ASLR on) - and event-log hashes, outcomes and
I/O statistics must be identical. A mismatch is a harness error (exit 2)."""
import json
import os
import sys

from common import HarnessError, Pool, build, log


def run(n=150):
    build(["simc", "seqc", "simgraph", "simels", "simrepl", "simpyc"])
    import builder_checks as B
    import els_checks as E
    import repl_check as R
    from genproj import gen_project
    failures = []

    def canon(res):
        # the order of the entries inside one publishDiagnostics list comes out of a hash set whose
        # order differs from process to process (same schedule, same set): presentation, not compared
        return json.dumps({k: sorted(json.dumps(x, sort_keys=True) for x in v) for k, v in (res.get("diags") or {}).items()},
                          sort_keys=True)

    def builder_item(i, w, d):
        proj = gen_project(777, i, B.GEN_OPTS["C20"])
        seeds = B.schedule_seeds(777, "selftest", i, 3)
        runs, _ = B.explore_project("C20", proj, seeds, w, d, want_seq=True)
        return [(r["kind"], r["res"].get("class"), (r["res"].get("stats") or {}).get("log_hash"),
                 r["out"]["code"], len(r["out"]["diags"])) for r in runs]

    def els_item(i, w, d):
        hist = E.gen_c28(777, i)
        res = E.run_simels(E.build_c28(hist), w, d, E.sched_args(777, "selftest", i))
        return [res.get("class"), (res.get("stats") or {}).get("log_hash"), len(res.get("snapshots", [])), canon(res)]

    def els29_item(i, w, d):
        hist = E.gen_c29(777, i)
        res = E.run_simels(E.build_c29(hist), w, d, E.sched_args(777, "selftest29", i))
        return [res.get("class"), (res.get("stats") or {}).get("log_hash"), canon(res)]

    def repl_item(i, w, d):
        h = R.gen_history(777, "B", i)
        res = R.run_history(h, w, d)
        io = {}
        for l in res["lines"]:
            if "io" in l:
                io = l["io"]
        return [res["rc"], json.dumps(io, sort_keys=True), [l.get("result", "")[:50] for l in res["lines"] if "i" in l]]

    for name, fn, cnt in (("simc/seqc", builder_item, n), ("simels/C28", els_item, n), ("simels/C29", els29_item, n // 2),
                          ("simrepl", repl_item, n // 2)):
        outs = []
        for workers in (16, 3):
            pool = Pool("sft", workers=workers)
            try:
                outs.append(pool.map(fn, list(range(cnt))))
            finally:
                pool.close()
        bad = [i for i in range(cnt) if json.dumps(outs[0][i], sort_keys=True) != json.dumps(outs[1][i], sort_keys=True)]
        log(f"[selftest] {name}: {cnt} workloads twice, {len(bad)} mismatches")
        if bad:
            failures.append((name, bad[:5], outs[0][bad[0]], outs[1][bad[0]]))
    if failures:
        for f in failures:
            log("MISMATCH", json.dumps(f)[:1500])
        raise HarnessError("selftest: the simulator is not deterministic")
    print("selftest ok")
    return 0
