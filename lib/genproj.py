"""Seeded generator of multi-module Erg projects (C19 / C20 workloads).

A project is a dict:
  files   {name: text}          main.er + m1.er ...
  graph   {mod: [deps]}         import edges (acyclic part and cycles alike)
  shape   str                   dag | chain | diamond | fanout | self | cycle2 | cycle2_outside | cycle3 | twocycles
  tags    [mod]                 every module prints "TAG_<mod>" once at top level
  expect  {"result": int}       main prints "RESULT <n>"; the generator knows n
  errors  [(mod, kind)]         injected errors (empty => the project is error-free)
  flags   {...}                 shape predicates used by the known-findings filter
The generator knows the value of every public Int/Str it emits, so the program's output is an
oracle for "every public name is visible with its declared type" that does not involve erg.
"""

from rng import SplitMix

STD_PY = ["math", "random", "time", "sys", "os", "re", "json", "string"]


class Mod:
    def __init__(self, name):
        self.name = name
        self.deps = []          # acyclic imports (used at top level)
        self.cyc = []           # cyclic partners (used only inside function bodies)
        self.ints = {}          # public int name -> value
        self.strs = {}          # public str name -> value
        self.funs = {}          # public function name -> python lambda (int -> int)
        self.cyc_funs = {}      # functions that do not touch a partner (safe for partners to call)
        self.lazy = set()       # functions whose value is known only once every module is built
        self.classes = []       # public class names
        self.lines = []
        self.pyimports = []
        self.self_import = False
        self.idle = []          # imported, never used


def _int_expr(r, mod, mods, privs, depth=0):
    """returns (text, value)"""
    choices = ["lit"]
    if privs:
        choices += ["priv", "priv"]
    for d in mod.deps:
        if mods[d].ints:
            choices += ["dep", "dep"]
    if mod.ints:
        choices.append("own")
    if depth < 2:
        choices += ["add", "mul", "call"]
    k = r.pick(choices)
    if k == "lit":
        v = r.range(0, 40)
        return str(v), v
    if k == "priv":
        n, v = r.pick(privs)
        return n, v
    if k == "dep":
        ds = [d for d in mod.deps if mods[d].ints]
        d = r.pick(ds)
        n = r.pick(sorted(mods[d].ints))
        return f"{d}.{n}", mods[d].ints[n]
    if k == "own":
        n = r.pick(sorted(mod.ints))
        return n_ref(n), mod.ints[n]
    if k == "add":
        a, av = _int_expr(r, mod, mods, privs, depth + 1)
        b, bv = _int_expr(r, mod, mods, privs, depth + 1)
        return f"{a} + {b}", av + bv
    if k == "mul":
        a, av = _int_expr(r, mod, mods, privs, depth + 2)
        c = r.range(1, 3)
        return f"({a}) * {c}", av * c
    if k == "call":
        # (a *public* binding cannot see an inlined cycle member at all: pre-registration runs
        # before the inlined module exists -- schedule-independent; only private top-level
        # code, like main's checksum line, uses cycle members)
        cands = [(d, f) for d in mod.deps for f in sorted(mods[d].funs)
                 if f not in mods[d].lazy and not mods[d].cyc]
        cands += [(None, f) for f in sorted(mod.funs) if f not in mod.lazy]
        if not cands:
            v = r.range(0, 9)
            return str(v), v
        d, f = r.pick(cands)
        arg = r.range(0, 9)
        if d is None:
            return f"{n_ref(f)}({arg})", mod.funs[f](arg)
        return f"{d}.{f}({arg})", mods[d].funs[f](arg)
    raise AssertionError(k)


def n_ref(name):
    # a public name is referred to with its dot inside its own module
    return "." + name


def gen_graph(r, opts):
    """returns (names, deps, cyc, shape, self_importers)"""
    nmax = opts.get("max_modules", 8)
    shape = r.pick(opts.get("shapes", ["dag", "dag", "chain", "diamond", "fanout", "self", "cycle2",
                                      "cycle2_outside", "cycle3", "twocycles"]))
    n = r.range(2, nmax)
    if shape == "diamond":
        n = max(n, 4)
    if shape in ("cycle2", "self"):
        n = max(n, 3)
    if shape in ("cycle3", "cycle2_outside"):
        n = max(n, 4)
    if shape == "twocycles":
        n = max(n, 5)
    if shape == "overlap":
        n = max(n, 4)
    names = ["main"] + [f"m{i}" for i in range(1, n)]
    deps = {m: [] for m in names}
    cyc = {m: [] for m in names}
    self_imp = []

    def dag_edges(idx, p_extra):
        # every module j>0 gets at least one importer i<j
        for j in range(1, len(idx)):
            i = r.below(j)
            deps[idx[i]].append(idx[j])
            for i2 in range(j):
                if i2 != i and r.chance(p_extra):
                    deps[idx[i2]].append(idx[j])

    if shape == "chain":
        for i in range(n - 1):
            deps[names[i]].append(names[i + 1])
    elif shape == "fanout":
        for i in range(1, n):
            deps["main"].append(names[i])
    elif shape == "idlefan":
        # main imports modules it never touches: nothing but the entry module's final join waits
        # for their analysis threads; below them an ordinary DAG
        k = r.range(1, min(3, n - 1))
        for j in range(k + 1, n):
            i = r.range(1, j - 1)
            deps[names[i]].append(names[j])
    elif shape == "diamond":
        # main -> m1..m(n-2) -> m(n-1)
        for i in range(1, n - 1):
            deps["main"].append(names[i])
            deps[names[i]].append(names[n - 1])
    elif shape in ("dag", "self"):
        dag_edges(names, 0.3)
        if shape == "self":
            self_imp.append(r.pick(names[1:]))
    elif shape == "cycle2":
        # corpus style: main imports both partners; the rest hangs below as a DAG
        a, b = names[1], names[2]
        deps["main"] += [a, b]
        cyc[a].append(b)
        cyc[b].append(a)
        rest = names[3:]
        for j, m in enumerate(rest):
            imp = r.pick([a, b] + rest[:j])
            deps[imp].append(m)
    elif shape == "cycle2_outside":
        # main -> a, c ; a <-> b ; c -> b      (a member of the cycle is imported from outside it)
        a, b, c = names[1], names[2], names[3]
        deps["main"] += [a, c]
        cyc[a].append(b)
        cyc[b].append(a)
        deps[c].append(b)
        rest = names[4:]
        for j, m in enumerate(rest):
            imp = r.pick([a, b, c] + rest[:j])
            deps[imp].append(m)
    elif shape == "cycle3":
        a, b, c = names[1], names[2], names[3]
        deps["main"] += [a]
        cyc[a].append(b)
        cyc[b].append(c)
        cyc[c].append(a)
        rest = names[4:]
        for j, m in enumerate(rest):
            imp = r.pick([a, b, c] + rest[:j])
            deps[imp].append(m)
    elif shape == "overlap":
        # two cycles of different length sharing the edge b -> c:  a -> b -> c,  c -> b,  c -> a
        a, b, c = names[1], names[2], names[3]
        deps["main"] += [a]
        cyc[a].append(b)
        cyc[b].append(c)
        cyc[c] += [b, a]
        rest = names[4:]
        for j, m in enumerate(rest):
            imp = r.pick([a, b, c] + rest[:j])
            deps[imp].append(m)
    elif shape == "twocycles":
        # a <-> b and a <-> c share the node a
        a, b, c = names[1], names[2], names[3]
        deps["main"] += [a, b, c]
        cyc[a] += [b, c]
        cyc[b].append(a)
        cyc[c].append(a)
        rest = names[4:]
        for j, m in enumerate(rest):
            imp = r.pick([a, b, c] + rest[:j])
            deps[imp].append(m)
    # idle imports: a module imported but never touched by its importer. Lowering the importer then
    # never joins that module's analysis thread; only the entry module's final join waits for it.
    idle = {m: [] for m in names}
    if shape == "idlefan":
        k = sum(1 for j in range(1, len(names)) if not any(names[j] in deps[m] for m in names))
        idle["main"] = [names[j] for j in range(1, len(names)) if not any(names[j] in deps[m] for m in names)]
    if shape in ("dag", "chain", "diamond", "fanout", "self"):
        for j in range(1, len(names)):
            if r.chance(opts.get("p_idle_import", 0.2)):
                i = r.below(j)
                if names[j] not in deps[names[i]]:
                    idle[names[i]].append(names[j])
    return names, deps, cyc, shape, self_imp, idle


def gen_project(seed, idx, opts=None):
    opts = opts or {}
    r = SplitMix.derive(seed, opts.get("label", "proj"), idx)
    names, deps, cyc, shape, self_imp, idle = gen_graph(r, opts)
    mods = {m: Mod(m) for m in names}
    for m in names:
        mods[m].deps = sorted(set(deps[m]), key=names.index)
        mods[m].cyc = cyc[m]
        mods[m].self_import = m in self_imp
        mods[m].idle = [x for x in idle[m] if x not in mods[m].deps]

    poly = r.chance(opts.get("p_poly", 0.1))           # un-annotated polymorphic exports
    infer_fail = poly and r.chance(opts.get("p_infer_fail", 0.0))
    inject = r.chance(opts.get("p_errors", 0.33))
    n_priv_hi = opts.get("max_private", 40)
    errors = []

    # build modules bottom-up so that values of imported names are known
    order = []
    seen = set()

    def visit(m):
        if m in seen:
            return
        seen.add(m)
        for d in mods[m].deps:
            visit(d)
        order.append(m)

    # cyclic partners first need their non-cyclic deps; visit everything
    for m in names:
        visit(m)

    rich_cycle = r.chance(opts.get("p_rich_cycle", 0.1))
    if shape == "overlap":
        rich_cycle = False
        _overlap_members(r, mods, names)
    for m in order:
        mod = mods[m]
        L = mod.lines
        if shape == "overlap" and mod.cyc:
            continue
        for d in mod.deps + mod.cyc:
            L.append(f'{d} = import "{d}"')
        for d in mod.idle:
            L.append(f'{d} = import "{d}"')
        if mod.cyc and not rich_cycle:
            _corpus_style_member(r, mod, mods)
            continue
        if mod.self_import:
            L.append(f'{m}_self = import "{m}"')
        if r.chance(0.3):
            py = r.pick(STD_PY)
            mod.pyimports.append(py)
            L.append(f'py_{py} = pyimport "{py}"')
        # private constants
        privs = []
        for i in range(r.range(2, max(2, r.range(5, n_priv_hi)))):
            kind = r.below(5)
            if kind <= 2:
                v = r.range(0, 99)
                L.append(f"_p{i} = {v}")
                privs.append((f"_p{i}", v))
            elif kind == 3:
                L.append(f'_q{i} = "s{r.range(0, 999)}"')
            else:
                L.append(f"_l{i} = [{r.range(0, 9)}, {r.range(0, 9)}, {r.range(0, 9)}]")
        # functions that never touch a cyclic partner (partners may call these)
        nf = r.range(1, 3)
        for i in range(nf):
            c = r.range(1, 9)
            pn = f"x{m}{i}"
            fname = f"f{i}"
            if r.chance(0.5):
                L.append(f".{fname}({pn}: Int): Int = {pn} + {c}")
                mod.funs[fname] = (lambda c: lambda x: x + c)(c)
            else:
                L.append(f".{fname}({pn}: Int): Int = {pn} * {c}")
                mod.funs[fname] = (lambda c: lambda x: x * c)(c)
            mod.cyc_funs[fname] = mod.funs[fname]
        # public typed bindings
        for i in range(r.range(1, 6)):
            if r.chance(0.7):
                t, v = _int_expr(r, mod, mods, privs)
                L.append(f".v{i}: Int = {t}")
                mod.ints[f"v{i}"] = v
            else:
                base = f"t{r.range(0, 99)}"
                cands = [(d, s) for d in mod.deps for s in sorted(mods[d].strs)]
                if cands and r.chance(0.6):
                    d, s = r.pick(cands)
                    L.append(f'.s{i}: Str = "{base}" + {d}.{s}')
                    mod.strs[f"s{i}"] = base + mods[d].strs[s]
                else:
                    L.append(f'.s{i}: Str = "{base}"')
                    mod.strs[f"s{i}"] = base
        # functions using imports (acyclic deps at will; cyclic partners only through their
        # partner-free functions and with a computed argument)
        for i in range(r.range(0, 2)):
            pn = f"y{m}{i}"
            fname = f"g{i}"
            # (inside a function body the names of an inlined cycle member are not visible to an
            # outside importer -- schedule-independent defect; importers use them at top level only)
            cands = [(d, f) for d in mod.deps for f in sorted(mods[d].funs)
                     if f not in mods[d].lazy and not mods[d].cyc]
            cyc_cands = [(d, f) for d in mod.cyc for f in ("f0",)]
            if cyc_cands and r.chance(0.8):
                d, f = r.pick(cyc_cands)
                # the partner's f0 is generated later for one of the two; its closure is looked up lazily
                L.append(f".{fname}({pn}: Int) = {d}.{f}({pn} + 1)")
                mod.funs[fname] = (lambda d, f: lambda x: mods[d].funs[f](x + 1))(d, f)
                mod.lazy.add(fname)
            elif cands:
                d, f = r.pick(cands)
                # (a parameter passed straight to a function of an inlined module trips a
                # code-generation defect that has nothing to do with scheduling: "+ 1" avoids it)
                L.append(f".{fname}({pn}: Int): Int = {d}.{f}({pn} + 1) + 1")
                mod.funs[fname] = (lambda d, f: lambda x: mods[d].funs[f](x + 1) + 1)(d, f)
        # a class or two
        for i in range(r.below(3)):
            cn = f"C{i}"
            L.append(f".{cn} = Class {{.x = Int; .y = Str}}")
            L.append(f".{cn}.")
            L.append(f"    getx self = self.x")
            L.append(f"    addx self, n{m}{i}: Int = self.x + n{m}{i}")
            mod.classes.append(cn)
        # typed uses of imported names
        for d in mod.deps:
            dm = mods[d]
            for n_ in sorted(dm.ints)[: r.range(1, 3)]:
                L.append(f"u_{d}_{n_}: Int = {d}.{n_}")
            for n_ in sorted(dm.strs)[: r.range(0, 2)]:
                L.append(f"u_{d}_{n_}: Str = {d}.{n_}")
            for cn in dm.classes[:1]:
                val = r.range(0, 50)
                L.append(f'o_{d}_{cn} = {d}.{cn}.new {{.x = {val}; .y = "o"}}')
                L.append(f"assert o_{d}_{cn}.getx() == {val}")
                L.append(f"assert o_{d}_{cn}.addx(2) == {val + 2}")
        if poly:
            L.append(f".id{m} x = x")
            L.append(f".tw{m} f, x = f(f(x))")
            L.append(f".ad{m} x = x + 1")
            # an un-annotated operator-polymorphic export whose inference fails inside erg: its
            # diagnostics are known to depend on the schedule (see known_findings.json)
            pdeps = [d for d in mod.deps if not mods[d].cyc]
            if infer_fail and pdeps:
                d = pdeps[0]
                L.append(f".us{m} x = {d}.tw{d}({d}.ad{d}, x) + {d}.id{d}(x)")
                errors.append((m, "inference"))
        L.append(f'print! "TAG_{m}"')

    # main: a checksum over every directly visible public int and some calls
    main = mods["main"]
    total = 0
    terms = []
    for d in main.deps:
        dm = mods[d]
        for n_ in sorted(dm.ints):
            terms.append(f"{d}.{n_}")
            total += dm.ints[n_]
        for f in sorted(dm.funs):
            arg = r.range(0, 5)
            terms.append(f"{d}.{f}({arg})")
            total += dm.funs[f](arg)
    for d in main.deps:
        for t, v in getattr(mods[d], "overlap_terms", []):
            terms.append(t)
            total += v
    for n_ in sorted(main.ints):
        terms.append(n_ref(n_))
        total += main.ints[n_]
    if not terms:
        terms = ["0"]
    main.lines.insert(len(main.lines) - 1, "result: Int = " + " + ".join(terms))
    main.lines.insert(len(main.lines) - 1, 'print! "RESULT", result')

    # injected errors / warnings, spread over different modules
    if inject:
        victims = r.sample(names, min(len(names), r.range(1, 3)))
        for v in victims:
            mod = mods[v]
            kind = r.pick(["type", "name", "attr", "arg"])
            pos = len(mod.lines) - 1
            if kind == "type":
                mod.lines.insert(pos, f'.bad{v}: Int = "oops"')
            elif kind == "name":
                mod.lines.insert(pos, f"e{v} = undefined_{v} + 1")
            elif kind == "attr" and mod.deps:
                mod.lines.insert(pos, f"e{v} = {mod.deps[0]}.nonexistent_{v}")
            elif kind == "arg" and mod.deps and mods[mod.deps[0]].cyc_funs:
                mod.lines.insert(pos, f'e{v} = {mod.deps[0]}.f0("str")')
            else:
                kind = "type"
                mod.lines.insert(pos, f'.bad{v}: Int = "oops"')
            errors.append((v, kind))

    files = {f"{m}.er": "\n".join(mods[m].lines) + "\n" for m in names}
    graph = {m: mods[m].deps + mods[m].cyc + mods[m].idle + ([m] if mods[m].self_import else []) for m in names}
    flags = {
        "has_cycle_ge3": shape == "cycle3",
        "cycle_member_imported_from_outside": shape in ("cycle2_outside",) or _outside_importer(mods, names),
        "has_cycle": shape in ("cycle2", "cycle2_outside", "cycle3", "twocycles", "overlap"),
        "poly": poly,
        "self_import": bool(self_imp),
        "rich_cycle": rich_cycle and shape in ("cycle2", "cycle2_outside", "cycle3", "twocycles", "overlap"),
        "idle_imports": any(mods[m].idle for m in names),
        "infer_fail": any(k == "inference" for _, k in errors),
    }
    # modules reachable from main through imports that are actually used: their top level must
    # run; a module that is only ever imported idly may be dropped by erg's unused-import elimination
    used = {m: mods[m].deps + mods[m].cyc for m in names}
    req, stack = set(), ["main"]
    while stack:
        x = stack.pop()
        if x in req:
            continue
        req.add(x)
        stack.extend(used[x])
    return {
        "files": files, "graph": graph, "shape": shape, "tags": names, "tags_required": sorted(req),
        "expect": {"result": total}, "errors": errors, "flags": flags,
    }


def _corpus_style_member(r, mod, mods):
    """A member of an import cycle, written the way tests/should_ok/cyclic is: un-annotated
    public constants, functions, partners used only inside function bodies."""
    m = mod.name
    L = mod.lines
    # (public constants of a cycle member are not offered to importers: whichever member erg
    # inlines loses them for outside importers -- a defect that does not depend on scheduling)
    for i in range(r.range(1, 3)):
        L.append(f".w{i} = {r.range(0, 40)}")
    for i in range(r.range(1, 3)):
        c = r.range(1, 9)
        pn = f"x{m}{i}"
        L.append(f".f{i}({pn}: Int): Int = {pn} + {c}")
        mod.funs[f"f{i}"] = (lambda c: lambda x: x + c)(c)
        mod.cyc_funs[f"f{i}"] = mod.funs[f"f{i}"]
    for i, d in enumerate(mod.cyc):
        # two clauses, as in the corpus (.odd 0 / .odd n)
        L.append(f".g{i} 0 = {d}.f0(1)")
        L.append(f".g{i} n{m}{i} = {d}.f0(n{m}{i} + 1)")
        mod.funs[f"g{i}"] = (lambda d: lambda x: mods[d].funs["f0"](x + 1))(d)
        mod.lazy.add(f"g{i}")
    for d in mod.deps:
        dm = mods[d]
        for n_ in sorted(dm.ints)[:2]:
            L.append(f"u_{d}_{n_}: Int = {d}.{n_}")
    L.append(f'print! "TAG_{m}"')


def _overlap_members(r, mods, names):
    """a -> b -> c, c -> b, c -> a: every member defines its typed constant *before* its imports
    (an inlined partner is analysed at the import line and sees only what precedes it) and a
    nullary typed function that uses its partners"""
    a, b, c = names[1], names[2], names[3]
    va, vb, vc = r.range(0, 40), r.range(0, 40), r.range(0, 40)
    fc = va + vb
    fb = vc + fc
    fa = vb + fb
    for m, v, imps, body, fv in ((a, va, [b], f"{b}.k{b} + {b}.fn{b}()", fa), (b, vb, [c], f"{c}.k{c} + {c}.fn{c}()", fb),
                                 (c, vc, [b, a], f"{a}.k{a} + {b}.k{b}", fc)):
        mod = mods[m]
        L = mod.lines
        L.append(f".k{m}: Int = {v}")
        for d in imps + mod.deps:
            L.append(f'{d} = import "{d}"')
        L.append(f".fn{m}(): Int = {body}")
        for d in mod.deps:
            for n_ in sorted(mods[d].ints)[:2]:
                L.append(f"u_{d}_{n_}: Int = {d}.{n_}")
        L.append(f'print! "TAG_{m}"')
        mod.ints = {}
        mod.funs = {}
    # what main may use of `a`: its constant and its function, from private top-level code
    mods[a].overlap_terms = [(f"{a}.k{a}", va), (f"{a}.fn{a}()", fa)]


def _outside_importer(mods, names):
    """is some member of a cycle imported by a module that is not main and not in that cycle?"""
    for m in names:
        for p in mods[m].cyc:
            members = {m, p} | set(mods[p].cyc)
            for o in names:
                if o in members or o == "main":
                    continue
                if m in mods[o].deps or p in mods[o].deps:
                    return True
    return False


def write_project(proj, d):
    import os
    os.makedirs(d, exist_ok=True)
    for f in os.listdir(d):
        if f.endswith(".er") or f.endswith(".pyc"):
            os.remove(os.path.join(d, f))
    for name, text in proj["files"].items():
        with open(os.path.join(d, name), "w") as fh:
            fh.write(text)
