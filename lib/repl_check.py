"""C25: REPL results stay in step with inputs; framing survives any split (`simrepl`,
py/repl_node.py, py/codec_check.py)."""

import json
import os
import subprocess
import time

from common import (VERIF, HarnessError, Pool, Report, bin_path, build, load_known, log, run_json, sha,
                    write_evidence, write_replay, PY_EXE, PY_MAGIC, PY_VER)
from rng import SplitMix

SIMREPL = bin_path("simrepl")
NODE = os.path.join(VERIF, "py", "repl_node.py")
PYCODEC = os.path.join(VERIF, "py", "codec_check.py")
SERVER_PY = os.environ.get("VERIF_TEST_SERVER_PY", "/repo/src/scripts/repl_server.py")

TIERS = {
    # histories per fault configuration (A no faults, B splits+EINTR, C = B + one peer stall), codec cases
    "quick": {"A": 40, "B": 260, "C": 60, "codec": 3000},
    "thorough": {"A": 300, "B": 4000, "C": 700, "codec": 60000},
}
SIZES = [0, 0, 1, 2, 10, 100, 1000, 5000, 16000, 17000, 65533, 65534, 65535, 65536, 65537, 70000, 131071, 200000]


def gen_history(seed, cfg, idx):
    """inputs whose result the harness knows without erg; every input carries a unique tag"""
    r = SplitMix.derive(seed, "C25/" + cfg, idx)
    n = r.range(1, 12) if r.chance(0.8) else r.range(1, 3)
    inputs = []
    expected = []
    vars_ = {}
    big_budget = 2 if cfg != "A" else 3          # large payloads are slow to compile: a few per history
    for i in range(n):
        tag = f"T{idx}x{i}x"
        k = r.below(10)
        size = r.pick(SIZES) if (big_budget > 0 and r.chance(0.35)) else r.pick([0, 1, 2, 10, 50, 300])
        if size > 5000:
            big_budget -= 1
        if k <= 2:
            # large *output*: small source. The reply is the output plus "\nNone" (5 bytes): some
            # sizes are chosen so that the *reply* is an exact multiple of the frame size
            if size >= 65533 and r.chance(0.5):
                size = r.pick([65535, 131070]) - 5 - len(tag)
            inputs.append(f'print! "{tag}" + "x" * {size}')
            expected.append(tag + "x" * size)
        elif k == 3:
            # non-ASCII output: bytes and characters differ
            unit = r.pick(["あ", "é", "\U0001F600"])
            n = size // len(unit.encode()) if size else 0
            if size >= 65533 and r.chance(0.5):
                n = (r.pick([65535, 131070]) - 5 - len(tag)) // len(unit.encode())
            inputs.append(f'print! "{tag}" + "{unit}" * {n}')
            expected.append(tag + unit * n)
        elif k <= 5:
            # large *source* (and code object: into_script quadruples it)
            lit = "q" * size
            inputs.append(f'print! "{tag}{lit}"')
            expected.append(tag + lit)
        elif k == 6:
            a, b = r.range(0, 10**6), r.range(0, 10**6)
            inputs.append(f"{a} + {b}")
            expected.append(str(a + b))
        elif k == 7:
            name = f"v{idx}_{i}"
            val = r.range(0, 10**6)
            vars_[name] = val
            inputs.append(f"{name} = {val}")
            expected.append("")
        elif k == 8 and vars_:
            name = r.pick(sorted(vars_))
            inputs.append(f"print! {name}")
            expected.append(str(vars_[name]))
        else:
            inputs.append(f'"{tag}" + "y" * {min(size, 70000)}')
            expected.append("'" + tag + "y" * min(size, 70000) + "'")
    faults = {"split": cfg in ("B", "C"), "eintr": cfg in ("B", "C")}
    if cfg == "C":
        faults["stall_at"] = r.below(n)
    return {"inputs": inputs, "expected": expected, "faults": faults, "seed": r.seed64(),
            "pythonhashseed": r.below(1000), "cfg": cfg}


def run_history(h, w, d):
    sp = os.path.join(d, "script.json")
    out = os.path.join(d, "out.jsonl")
    with open(sp, "w") as fh:
        json.dump({k: h[k] for k in ("inputs", "faults", "seed", "pythonhashseed")}, fh)
    try:
        p = subprocess.run([SIMREPL, "--mode", "e2e", "--script", sp, "--out", out, "--node", NODE,
                            "--python", PY_EXE, "--server-py", SERVER_PY, "--magic", PY_MAGIC, "--pyver", PY_VER,
                            "--pin", str(w)], capture_output=True, timeout=600)
        rc = p.returncode
        stderr = p.stderr.decode("utf-8", "replace")[-1500:]
    except subprocess.TimeoutExpired:
        rc, stderr = "timeout", ""
    lines = []
    if os.path.exists(out):
        with open(out) as fh:
            for l in fh:
                try:
                    lines.append(json.loads(l))
                except Exception:
                    pass
    pyerr = ""
    if os.path.exists(out + ".pyerr"):
        with open(out + ".pyerr", errors="replace") as fh:
            pyerr = fh.read()[-800:]
    return {"rc": rc, "lines": lines, "stderr": stderr, "pyerr": pyerr}


def judge(h, res):
    """A/B: every input gets exactly its own result, in order, and the session ends cleanly.
    C (the peer stalled once beyond the read time-out): the client may give up through its I/O
    error path (process exit 1), but every result it did return belongs to its input."""
    bad = []
    got = {l["i"]: l for l in res["lines"] if "i" in l}
    for i, want in enumerate(h["expected"]):
        l = got.get(i)
        if l is None:
            break
        if l.get("panic"):
            bad.append({"clause": "client_panic", "detail": f"input {i}"})
            break
        if not l.get("ok"):
            bad.append({"clause": "result", "detail": f"input {i} rejected: {l.get('errors')}"[:300], "input": i})
            break
        if l["result"] != want:
            g = l["result"]
            bad.append({"clause": "result", "input": i,
                        "detail": f"input {i}: got {len(g)} chars {g[:40]!r}..{g[-20:]!r}, want {len(want)} chars {want[:40]!r}"})
            break
    complete = len(got) == len(h["expected"]) and any(l.get("finished") for l in res["lines"])
    if not bad and not complete:
        if h["cfg"] == "C" and res["rc"] == 1:
            pass        # gave up after the injected stall: allowed
        else:
            bad.append({"clause": "session", "detail": f"ended after {len(got)}/{len(h['expected'])} inputs, rc={res['rc']}: "
                        + (res["stderr"].strip().split("\n") or [""])[-1][:200] + " | py: "
                        + (res["pyerr"].strip().split("\n") or [""])[-1][:200]})
    return bad


def sig_of(bad):
    import re
    return sorted({b["clause"] + ":" + re.sub(r"\d+", "N", str(b.get("detail", "")))[:60] for b in bad})


def minimise(h, bad, w, d, budget_s=60):
    from common import ddmin
    want = {b["clause"] for b in bad}
    idxs = list(range(len(h["inputs"])))

    def sub(keep):
        h2 = dict(h)
        h2["inputs"] = [h["inputs"][i] for i in keep]
        h2["expected"] = [h["expected"][i] for i in keep]
        # `print! v` needs its assignment
        defined = set()
        for s in h2["inputs"]:
            if " = " in s and s.startswith("v"):
                defined.add(s.split(" = ")[0])
            if s.startswith("print! v") and s.split()[1] not in defined:
                return None
        if "stall_at" in h2["faults"]:
            h2["faults"] = dict(h2["faults"], stall_at=min(h2["faults"]["stall_at"], max(0, len(keep) - 1)))
        return h2

    def test(keep):
        if not keep:
            return False
        h2 = sub(keep)
        if h2 is None:
            return False
        b = judge(h2, run_history(h2, w, d))
        return bool(b) and bool({x["clause"] for x in b} & want)

    kept = ddmin(idxs, test, max_tests=40)
    h2 = sub(kept) or h
    b2 = judge(h2, run_history(h2, w, d))
    if b2 and {x["clause"] for x in b2} & want:
        return h2, b2
    return h, bad


def run_check(tier, seed, replay=None):
    t0 = time.time()
    build(["simrepl"])
    report = Report("C25")
    known = load_known("C25")
    if replay:
        with open(replay) as fh:
            rp = json.load(fh)
        pool = Pool("c25", workers=1)
        try:
            bad = pool.map(lambda _, w, d: judge(rp["workload"], run_history(rp["workload"], w, d)), [0])[0]
        finally:
            pool.close()
        if bad and {b["clause"] for b in bad} & {c.split(":")[0] for c in rp["expect"]["clauses"]}:
            print(f"VIOLATION property=C25 replay={replay}")
            print("  reproduced:", json.dumps(bad[0])[:400])
            return 1
        print("replay did not reproduce:", bad)
        return 2
    T = TIERS[tier]
    # layer 1: both codecs
    codec_viol = []
    rc_res, _ = run_json([SIMREPL, "--mode", "codec", "--seed", str(seed), "--count", str(T["codec"])], timeout=1800)
    if rc_res.get("class") != "done":
        raise HarnessError("simrepl codec mode failed: " + str(rc_res)[:300])
    py_res, _ = run_json([PY_EXE, PYCODEC, SERVER_PY, str(seed), str(max(300, T["codec"] // 10))], timeout=1800)
    if py_res.get("class") != "done":
        raise HarnessError("py codec check failed: " + str(py_res)[:300])
    for side, rr in (("rust", rc_res), ("python", py_res)):
        for v in rr["violations"][:3]:
            codec_viol.append((side, v))
    # layer 2: end to end
    tasks = []
    for cfg in ("A", "B", "C"):
        for i in range(T[cfg]):
            tasks.append((cfg, i))
    pool = Pool("c25")
    try:
        # calibration: the templates' expected strings are right in the fault-free configuration
        CAL = {"inputs": ['print! "Tcal" + "x" * 3', "1 + 2", 'c0 = 5', "print! c0", '"Tc" + "y" * 2'],
               "expected": ["Tcalxxx", "3", "", "5", "'Tcyy'"], "faults": {"split": False, "eintr": False},
               "seed": 1, "pythonhashseed": 0, "cfg": "A"}

        def cal(_, w, d):
            return judge(CAL, run_history(CAL, w, d))
        calres = pool.map(lambda _, w, d: (CAL, cal(_, w, d)), [0])[0]
        calbad = calres[1]

        def go(t, w, d):
            cfg, i = t
            h = gen_history(seed, cfg, i)
            res = run_history(h, w, d)
            bad = judge(h, res)
            io = {}
            for l in res["lines"]:
                if "io" in l:
                    io = l["io"]
            return {"cfg": cfg, "idx": i, "h": h, "bad": bad, "io": io, "rc": res["rc"]}
        results = pool.map(go, tasks, deadline=t0 + (2400 if tier == "quick" else 9000))
        results = [r for r in results if r is not None]
        # determinism: two histories twice
        for t in (tasks[len(tasks) // 2], tasks[-1]):
            a = go(t, 0, os.path.join(pool.base, "w00"))
            b = next(r for r in results if (r["cfg"], r["idx"]) == t)
            if json.dumps(a["io"], sort_keys=True) != json.dumps(b["io"], sort_keys=True) or a["bad"] != b["bad"]:
                raise HarnessError("simrepl: same seed, different I/O statistics")
        failing = [r for r in results if r["bad"]]
        log(f"[C25] {len(results)} histories, {len(failing)} with oracle failures; codec violations: {len(codec_viol)}")
        for r in failing[:20]:
            log(f'   {r["cfg"]}/{r["idx"]}: {json.dumps(r["bad"][0])[:300]}')

        def mini(r, w, d):
            h, b = minimise(r["h"], r["bad"], w, d, 60 if tier == "quick" else 150)
            return {"h": h, "bad": b, "cfg": r["cfg"], "idx": r["idx"]}
        minis = pool.map(mini, failing[:32])
    finally:
        pool.close()
    if calbad:
        # five small inputs, no faults, no splits: if even these are out of step the property is
        # broken in the plainest way (the expected strings are fixed texts, not measurements)
        path = write_replay("C25", {"engine": "simrepl", "verif_seed": seed, "workload": CAL,
                                    "expect": {"clauses": sig_of(calbad), "first": calbad[0]}})
        report.violation(f"fault-free calibration history failed: {json.dumps(calbad[0])[:300]}", path)
    for side, v in codec_viol:
        path = write_replay("C25", {"engine": "simrepl-codec", "side": side, "verif_seed": seed, "workload": v,
                                    "expect": {"clauses": ["codec:" + v["clause"]]}})
        report.violation(f"codec ({side}): {json.dumps(v)[:300]}", path)
    seen = set()
    for m in minis:
        sig = sig_of(m["bad"])
        e = None
        for k in known:
            mm = k.get("match", {})
            if mm.get("clauses") and all(any(s.startswith(c) for c in mm["clauses"]) for s in sig):
                if mm.get("min_payload") and not any(len(x) >= mm["min_payload"] for x in m["h"]["inputs"] + m["h"]["expected"]):
                    continue
                e = k
                break
        if e:
            report.known(e)
            continue
        key = (tuple(sig), sha(m["h"]["inputs"]))
        if key in seen:
            continue
        seen.add(key)
        path = write_replay("C25", {"engine": "simrepl", "verif_seed": seed, "workload": m["h"],
                                    "expect": {"clauses": sig, "first": m["bad"][0]}})
        report.violation(f'cfg={m["cfg"]} clauses={sig} first={json.dumps(m["bad"][0])[:300]}', path)
    # evidence
    io_tot = {}
    distinct = set()
    inputs_total = 0
    per_cfg = {}
    big = 0
    for r in results:
        per_cfg[r["cfg"]] = per_cfg.get(r["cfg"], 0) + 1
        inputs_total += len(r["h"]["inputs"])
        for k, v in r["io"].items():
            io_tot[k] = io_tot.get(k, 0) + v
        payload = max([len(x) for x in r["h"]["inputs"] + r["h"]["expected"]] + [0])
        if payload >= 65535:
            big += 1
        nontrivial = r["io"].get("short_reads", 0) + r["io"].get("py_short_recv", 0) + r["io"].get("short_writes", 0) > 0 \
            or payload >= 256
        if nontrivial:
            distinct.add((sha(r["h"]["inputs"]), r["h"]["seed"], json.dumps(r["h"]["faults"], sort_keys=True)))
    wall = time.time() - t0
    evals = len(results) + rc_res["evaluations"] + py_res["evaluations"]
    coverage = {
        "evaluations": evals,
        "distinct_nontrivial": len(distinct) + rc_res["distinct_nontrivial"] + py_res["distinct_nontrivial"],
        "rule": ("layer 1: one evaluation = one frame encoded and decoded by the Rust (resp. Python) MessageStream under one split "
                 "pattern - every cut pattern of frames of <= 12 wire bytes (exhaustive), seeded splits + EINTR for frames up to 210 KB; "
                 "layer 2: one evaluation = one REPL history (1-12 inputs, payloads 0-200 KB with mass at 65534-65537) through the real "
                 "client and the real Python server under one seeded split/EINTR/stall sequence; distinct by (inputs, fault seed, "
                 "configuration); non-trivial when at least one read/recv/write was short or a payload had >= 256 bytes"),
        "samples": [{"cfg": r["cfg"], "inputs": [x[:60] for x in r["h"]["inputs"][:5]], "faults": r["h"]["faults"]} for r in results[:3]],
        "histories": per_cfg, "repl_inputs_total": inputs_total, "histories_with_payload_ge_65535": big,
        "faults_fired": io_tot,
        "codec_rust": {k: rc_res[k] for k in ("evaluations", "exhaustive_short_frames")},
        "codec_python": {k: py_res[k] for k in ("evaluations", "exhaustive_short_frames")},
        "runs_per_hour": int(evals / max(wall, 1e-9) * 3600),
        "components_real": ["erg::DummyVM::eval (compiler, CodeObj::into_script, Message/MessageStream framing)",
                            "src/scripts/repl_server.py, unmodified, in CPython " + PY_VER],
        "components_stubbed": ["the TCP socket -> in-memory byte queues owned by the simulator (fake `socket` module on the Python side, "
                               "Read+Write object on the Rust side)", "the 10 s read time-out -> 'both ends waiting' / injected stall",
                               "spawning of the server process by DummyVM::new (the node is started by the harness)"],
        "known_findings_hit": {k: v[1] for k, v in report.known_hits.items()},
        "exhaustive": False,
    }
    write_evidence("C25", tier, seed, "fault_enumeration", coverage, wall, len(report.violations), [
        "no loss, duplication or reordering of bytes (TCP); EINTR only on the Rust side (CPython retries it itself)",
        "expected results come from templates whose format is calibrated once per run on small inputs in the fault-free configuration",
        "in configuration C (peer stall beyond the read time-out) the client may end the session through its error path; it may never return a wrong or truncated result",
    ])
    return report.finish()
