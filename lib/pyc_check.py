"""C15: the .pyc reader under stored-image faults; completed images read back by the reader and by
CPython (`simpyc`, py/pyc_oracle.py)."""

import json
import os
import resource
import subprocess
import time

from common import (VERIF, HarnessError, Pool, Report, bin_path, build, load_known, log, run_json, sha,
                    write_evidence, write_replay, PY_EXE, PY_MAGIC, PY_VER)
from genproj import gen_project
import builder_checks as BC

SIMPYC = bin_path("simpyc")
ORACLE = os.path.join(VERIF, "py", "pyc_oracle.py")

TIERS = {"quick": {"trees": 40, "programs": 10}, "thorough": {"trees": 400, "programs": 60}}


def limit_mem():
    # a forged length must not be able to take the machine down: 2 GiB of address space
    resource.setrlimit(resource.RLIMIT_AS, (2 << 30, 2 << 30))


def read_image(image, tier, seed, w, extra=None, progress=None):
    argv = [SIMPYC, "--mode", "read", "--image", image, "--tier", tier, "--seed", str(seed), "--pin", str(w)] + (extra or [])
    if progress:
        argv += ["--progress", progress]
    try:
        p = subprocess.run(argv, capture_output=True, timeout=3600, preexec_fn=limit_mem)
    except subprocess.TimeoutExpired:
        return {"class": "wall_timeout"}
    out = p.stdout.decode("utf-8", "replace").strip().split("\n")[-1]
    try:
        res = json.loads(out)
    except Exception:
        res = {"class": f"died(rc={p.returncode})", "stderr": p.stderr.decode("utf-8", "replace")[:300]}
    if p.returncode != 0 and res.get("class") == "done":
        res["class"] = f"exit({p.returncode})"
    return res


def locate_crash(image, tier, seed, w, d):
    """the reader took the whole process down (abort on allocation failure, stack overflow):
    find the fault by bisection over the fixed enumeration order"""
    prog = os.path.join(d, "progress")
    read_image(image, tier, seed, w, progress=prog)
    try:
        lo = int(open(prog).read())
    except Exception:
        lo = 0
    hi = lo + 256
    # linear scan of one progress window, one process per fault (rare path)
    for i in range(lo, hi + 1):
        r = read_image(image, tier, seed, w, extra=["--from", str(i), "--to", str(i + 1)])
        if r.get("class") != "done":
            return i, r
    return None, None


def run_check(tier, seed, replay=None):
    t0 = time.time()
    build(["simpyc", "simc"])
    report = Report("C15")
    known = load_known("C15")
    if replay:
        with open(replay) as fh:
            rp = json.load(fh)
        d = os.path.join(VERIF, "scratch", "c15_replay")
        os.makedirs(d, exist_ok=True)
        img = os.path.join(d, "image.pyc")
        with open(img, "wb") as fh:
            fh.write(bytes.fromhex(rp["workload"]["image_hex"]))
        r = read_image(img, "quick", 1, 0, extra=["--fault", json.dumps(rp["workload"]["fault"])])
        if r.get("class") != "done" or r.get("violations_total"):
            print(f"VIOLATION property=C15 replay={replay}")
            print("  reproduced:", json.dumps(r.get("violations") or r)[:400])
            return 1
        print("replay did not reproduce")
        return 2
    T = TIERS[tier]
    pool = Pool("c15")
    try:
        imgdir = os.path.join(pool.base, "images")
        os.makedirs(imgdir, exist_ok=True)
        # (b) seeded code-object trees built through the public API (with integers beyond 32 bits)
        g, _ = run_json([SIMPYC, "--mode", "gen", "--seed", str(seed), "--count", str(T["trees"]), "--outdir", imgdir,
                         "--magic", PY_MAGIC, "--big-nat"])
        if g.get("class") != "done":
            raise HarnessError("simpyc gen failed: " + str(g)[:300])
        images = [(x["image"], x["image"][:-4] + ".json") for x in g["images"]]
        # (a) code objects the real compiler produces for generated multi-module projects
        def compile_one(i, w, d):
            proj = gen_project(seed, i, dict(BC.GEN_OPTS["C19"], p_errors=0.0, p_poly=0.0, label="C15",
                                             shapes=["dag", "chain", "diamond", "fanout"]))
            pdir = os.path.join(d, "proj")
            from genproj import write_project
            write_project(proj, pdir)
            out = os.path.join(imgdir, f"p{i}.pyc")
            res = BC.run_simc(BC.SIMC, pdir, w, ["--sched", "default", "--pyc", out])
            return out if res.get("ok") and os.path.exists(out) else None
        progs = [p for p in pool.map(compile_one, list(range(T["programs"]))) if p]
        if len(progs) < T["programs"] // 2:
            raise HarnessError("C15: the compiler produced too few images for generated error-free projects")
        # fault-free half, CPython side: the constants come back equal and of the same type
        lst = os.path.join(pool.base, "pairs.json")
        with open(lst, "w") as fh:
            json.dump(images, fh)
        orc, _ = run_json([PY_EXE, ORACLE, lst], timeout=600)
        if orc.get("class") != "done":
            raise HarnessError("pyc_oracle failed: " + str(orc)[:300])
        # compiler-produced images must at least load in CPython
        lst2 = os.path.join(pool.base, "progs.json")
        loads_bad = []
        for p in progs:
            r = subprocess.run([PY_EXE, "-c", "import marshal,sys; marshal.loads(open(sys.argv[1],'rb').read()[16:])", p],
                               capture_output=True, text=True)
            if r.returncode != 0:
                loads_bad.append({"image": p, "clause": "cpython_rejects", "detail": r.stderr.strip().split("\n")[-1][:200]})
        # the storage-fault half: every image x every enumerated fault
        all_images = [x[0] for x in images] + progs

        def go(img, w, d):
            r = read_image(img, tier, seed, w)
            if r.get("class") != "done":
                idx, rr = locate_crash(img, tier, seed, w, d)
                r = {"class": "crash", "image": img, "crash_index": idx, "crash": rr, "bytes": os.path.getsize(img),
                     "evaluations": 0, "changed": 0, "distinct": 0, "faults_by_kind": {}, "outcomes": {},
                     "violations_total": 1,
                     "violations": [{"clause": "process_died", "index": idx, "site": (rr or {}).get("class"),
                                     "detail": (rr or {}).get("stderr", "")[:200]}]}
            return r
        results = pool.map(go, all_images)
        # determinism: one image twice
        again = go(all_images[0], 0, os.path.join(pool.base, "w00"))
        if json.dumps(again, sort_keys=True) != json.dumps(results[0], sort_keys=True):
            raise HarnessError("simpyc: same image and seed, different result")
        viols = []
        for v in orc["violations"] + loads_bad:
            viols.append(("roundtrip", v, None))
        for r in results:
            for v in r.get("violations", []):
                viols.append(("reader", v, r["image"]))
        seen = set()
        for kind, v, img in viols:
            key = (kind, v.get("clause"), v.get("site") or v.get("detail", "")[:60])
            e = None
            for k in known:
                m = k.get("match", {})
                if m.get("clause") == v.get("clause") and (not m.get("detail_contains") or m["detail_contains"] in json.dumps(v)):
                    e = k
            if e:
                report.known(e)
                continue
            if key in seen:
                continue
            seen.add(key)
            wl = {"kind": kind, "violation": v}
            if img:
                wl["image_hex"] = open(img, "rb").read().hex()
                wl["fault"] = v.get("fault", {"k": "none"})
            elif v.get("image"):
                wl["image_hex"] = open(v["image"], "rb").read().hex()
                wl["fault"] = {"k": "none"}
            path = write_replay("C15", {"engine": "simpyc", "verif_seed": seed, "workload": wl,
                                        "expect": {"clause": v.get("clause")}})
            report.violation(f'{kind}: {json.dumps(v)[:300]}', path)
        evals = sum(r.get("evaluations", 0) for r in results) + orc["images"] + len(progs)
        fk = {}
        oc = {}
        for r in results:
            for k, n in r.get("faults_by_kind", {}).items():
                fk[k] = fk.get(k, 0) + n
            for k, n in r.get("outcomes", {}).items():
                oc[k] = oc.get(k, 0) + n
        wall = time.time() - t0
        coverage = {
            "evaluations": evals,
            "distinct_nontrivial": sum(r.get("distinct", 0) for r in results),
            "rule": ("one evaluation = one (image, stored-image fault) pair read back by CodeObj::from_pyc: every truncation offset "
                     "(exhaustive), every 16/64/512/4096-byte sector zeroed or missing, every single bit flip for images up to the "
                     "tier's budget (sampled above), seeded byte replacements, 4-byte fields overwritten by boundary values, seeded "
                     "combinations ending in a truncation; plus each complete image read back (must re-serialise to the same bytes) "
                     "and unmarshalled by CPython (constants equal, same types); distinct by hash of the damaged image; all counted "
                     "images differ from the original (non-trivial) except the one complete image per file"),
            "samples": [{"image": os.path.basename(r.get("image", "")), "bytes": r.get("bytes"),
                         "faults_by_kind": r.get("faults_by_kind"), "outcomes": r.get("outcomes")} for r in results[:3]],
            "images_from_api_trees": len(images), "images_from_compiler": len(progs),
            "values_compared_in_cpython": orc["values_compared"],
            "faults_fired": fk, "reader_outcomes": oc,
            "runs_per_hour": int(evals / max(wall, 1e-9) * 3600),
            "components_real": ["CodeObj::from_pyc / from_bytes, Deserializer (the code behind `erg --mode read`)",
                                "ValueObj::into_bytes / CodeObj::into_bytecode, the compiler producing the program images",
                                "CPython " + PY_VER + " marshal as the target interpreter's unmarshaller"],
            "components_stubbed": ["the disk under the .pyc file -> an image transformer (prefix, zeroed/missing sector, bit flip, "
                                   "overwritten field) applied to the bytes File::create + write_all would have written"],
            "known_findings_hit": {k: v[1] for k, v in report.known_hits.items()},
            "exhaustive": False,
        }
        write_evidence("C15", tier, seed, "fault_enumeration", coverage, wall, len(report.violations), [
            "target version 3.11 only (the only interpreter installed)",
            "read-side I/O errors are not injected (no seam below File; the reader sees a complete read of a damaged file)",
            "an Ok on a damaged image is not a violation: the property only demands that the reader does not crash",
            "each reader process runs with RLIMIT_AS = 2 GiB so that an allocation driven by a forged length aborts (= violation) instead of swapping",
        ])
    finally:
        pool.close()
    return report.finish()
