"""splitmix64 — the orchestrator's only source of randomness (independent of Python's
`random` implementation and of PYTHONHASHSEED)."""

MASK = (1 << 64) - 1


class SplitMix:
    def __init__(self, seed):
        self.s = seed & MASK

    @classmethod
    def derive(cls, seed, label, idx=0):
        h = (seed ^ 0x9E3779B97F4A7C15) & MASK
        for b in label.encode():
            h = ((h ^ b) * 0x100000001B3) & MASK
        r = cls(h ^ ((idx * 0xBF58476D1CE4E5B9) & MASK))
        r.next()
        r.next()
        return r

    def next(self):
        self.s = (self.s + 0x9E3779B97F4A7C15) & MASK
        z = self.s
        z = ((z ^ (z >> 30)) * 0xBF58476D1CE4E5B9) & MASK
        z = ((z ^ (z >> 27)) * 0x94D049BB133111EB) & MASK
        return z ^ (z >> 31)

    def below(self, n):
        return 0 if n <= 0 else self.next() % n

    def range(self, lo, hi):
        return lo + self.below(hi - lo + 1)

    def chance(self, p):
        return (self.next() >> 11) / float(1 << 53) < p

    def pick(self, xs):
        return xs[self.below(len(xs))]

    def shuffle(self, xs):
        for i in range(len(xs) - 1, 0, -1):
            j = self.below(i + 1)
            xs[i], xs[j] = xs[j], xs[i]

    def sample(self, xs, k):
        ys = list(xs)
        self.shuffle(ys)
        return ys[:k]

    def seed64(self):
        """a fresh 63-bit seed for a child process"""
        return self.next() >> 1
