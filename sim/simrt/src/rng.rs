//! splitmix64: the only source of randomness in a simulated run

#[derive(Debug, Clone)]
pub struct SplitMix(pub u64);

impl SplitMix {
    pub fn new(seed: u64) -> Self {
        Self(seed)
    }
    /// a stream derived from (seed, label, index): one per run / per purpose
    pub fn derive(seed: u64, label: &str, idx: u64) -> Self {
        let mut h = seed ^ 0x9e3779b97f4a7c15;
        for b in label.bytes() {
            h = (h ^ b as u64).wrapping_mul(0x100000001b3);
        }
        let mut s = Self(h ^ idx.wrapping_mul(0xbf58476d1ce4e5b9));
        s.next();
        s.next();
        s
    }
    #[allow(clippy::should_implement_trait)]
    pub fn next(&mut self) -> u64 {
        self.0 = self.0.wrapping_add(0x9e3779b97f4a7c15);
        let mut z = self.0;
        z = (z ^ (z >> 30)).wrapping_mul(0xbf58476d1ce4e5b9);
        z = (z ^ (z >> 27)).wrapping_mul(0x94d049bb133111eb);
        z ^ (z >> 31)
    }
    /// uniform in 0..n (n > 0)
    pub fn below(&mut self, n: u64) -> u64 {
        if n == 0 {
            return 0;
        }
        self.next() % n
    }
    /// uniform in lo..=hi
    pub fn range(&mut self, lo: u64, hi: u64) -> u64 {
        lo + self.below(hi - lo + 1)
    }
    pub fn chance(&mut self, p: f64) -> bool {
        ((self.next() >> 11) as f64) / ((1u64 << 53) as f64) < p
    }
    pub fn pick<'a, T>(&mut self, xs: &'a [T]) -> &'a T {
        &xs[self.below(xs.len() as u64) as usize]
    }
    pub fn shuffle<T>(&mut self, xs: &mut [T]) {
        for i in (1..xs.len()).rev() {
            let j = self.below(i as u64 + 1) as usize;
            xs.swap(i, j);
        }
    }
}
