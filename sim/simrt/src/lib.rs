//! simrt — the deterministic-simulation runtime behind the `erg_common::sim` seams.
//!
//! Real OS threads, but exactly one of them runs at any time ("baton"): a thread gives
//! the baton up only at a hook (`point`, `sleep`, spawn, exit); the runtime then picks the
//! next thread from one PRNG (or from a recorded deviation list) and unparks it.
//! Simulated time is a discrete-event clock: it advances only when nobody is runnable.
//!
//! Nothing in here reads a real clock or OS randomness; one integer decides a run.

use std::collections::BTreeMap;
use std::io::Write;
use std::sync::atomic::{AtomicBool, Ordering};
use std::sync::{Arc, Mutex};
use std::thread::{Thread, ThreadId};
use std::time::Duration;

use erg_common::sim::{SimRuntime, SimTid};

pub mod cli;
pub mod rng;
pub use rng::SplitMix;

pub use serde_json;
use serde_json::{json, Value};

// ---------------------------------------------------------------------------------------
// configuration
// ---------------------------------------------------------------------------------------

#[derive(Debug, Clone)]
pub enum Sched {
    /// never preempt; when the current thread blocks, lowest id runnable. No faults.
    Default,
    /// at every hook: with probability `p_preempt` run somebody else
    Random { p_preempt: f64 },
    /// PCT: random thread priorities, `d` priority change points over `est_len` steps
    Pct { d: u32, est_len: u64 },
    /// only the recorded deviations (replay / minimisation)
    Explicit,
}

#[derive(Debug, Clone, Default)]
pub struct FaultCfg {
    /// a thread sleeps up to `stall_max_ms` at a hook (possibly while holding a guard)
    pub stall_p: f64,
    pub stall_max_ms: u64,
    /// a spawned thread stays not-started for a while
    pub late_start_p: f64,
    pub late_start_max_ms: u64,
    /// a sleep returns late (never early)
    pub timer_late_p: f64,
    pub timer_late_max_ms: u64,
    /// "slow node": a spawned thread is marked slow with probability `slow_thread_p`; a slow
    /// thread stalls (1..=slow_max_ms) at each of its hooks with probability `slow_point_p`, so it
    /// keeps arriving late everywhere - including between two steps that look adjacent
    pub slow_thread_p: f64,
    pub slow_point_p: f64,
    pub slow_max_ms: u64,
    /// upper bound on the stall time injected into one thread (0 = none): harnesses whose oracle
    /// waits a bounded simulated time for quiescence must bound the delays they inject themselves
    pub stall_budget_ms: u64,
}

#[derive(Debug, Clone, PartialEq)]
pub struct Deviation {
    pub step: u64,
    /// run this thread instead of the default choice
    pub run: Option<u32>,
    /// fault injected at this step: ("stall"|"late_start"|"timer_late", ms)
    pub fault: Option<(String, u64)>,
}

impl Deviation {
    pub fn to_json(&self) -> Value {
        let mut m = serde_json::Map::new();
        m.insert("step".into(), json!(self.step));
        if let Some(r) = self.run {
            m.insert("run".into(), json!(r));
        }
        if let Some((k, ms)) = &self.fault {
            m.insert("fault".into(), json!(k));
            m.insert("ms".into(), json!(ms));
        }
        Value::Object(m)
    }
    pub fn from_json(v: &Value) -> Option<Self> {
        Some(Self {
            step: v.get("step")?.as_u64()?,
            run: v.get("run").and_then(|r| r.as_u64()).map(|r| r as u32),
            fault: v
                .get("fault")
                .and_then(|f| f.as_str())
                .map(|f| (f.to_string(), v.get("ms").and_then(|m| m.as_u64()).unwrap_or(0))),
        })
    }
}

#[derive(Debug, Clone)]
pub struct Config {
    pub seed: u64,
    pub sched: Sched,
    pub faults: FaultCfg,
    pub deviations: Vec<Deviation>,
    pub step_cap: u64,
    pub sim_time_cap: Duration,
    /// full event log, one line per event (debugging / determinism diff)
    pub trace_path: Option<String>,
    /// deviations appended as they are drawn (survives a crash of the process)
    pub dev_path: Option<String>,
    /// finished sim threads stay parked until process exit (no `thread_local` slot is ever
    /// recycled); `false` lets the OS thread end, for harnesses that run many scenarios per process
    pub linger: bool,
}

impl Default for Config {
    fn default() -> Self {
        Self {
            seed: 1,
            sched: Sched::Default,
            faults: FaultCfg::default(),
            deviations: vec![],
            step_cap: 5_000_000,
            sim_time_cap: Duration::from_secs(600),
            trace_path: None,
            dev_path: None,
            linger: true,
        }
    }
}

// ---------------------------------------------------------------------------------------
// state
// ---------------------------------------------------------------------------------------

#[derive(Debug, Clone, Copy, PartialEq, Eq)]
enum St {
    /// spawned, has not run yet; may start at `wake_at`
    NotStarted,
    Runnable,
    Sleeping,
    Finished,
}

struct Gate {
    go: AtomicBool,
    thread: Mutex<Option<Thread>>,
}

struct Th {
    name: String,
    st: St,
    wake_at: u64,
    tag: Option<&'static str>,
    prio: u64,
    os_id: Option<ThreadId>,
    gate: Arc<Gate>,
    panicked: bool,
    slow: bool,
    stalled_ms: u64,
    last_site: &'static str,
}

#[derive(Debug, Clone, Default)]
pub struct Stats {
    pub steps: u64,
    pub switches: u64,
    pub sim_time_us: u64,
    pub threads: u32,
    pub max_runnable: u32,
    /// steps at which >= 2 threads could have run
    pub choice_points: u64,
    pub faults: BTreeMap<String, u64>,
    pub probes: BTreeMap<String, u64>,
    pub sites: BTreeMap<String, u64>,
    pub log_hash: u64,
    pub panics: Vec<String>,
    pub aborted: Option<String>,
}

struct Inner {
    cfg: Config,
    rng: SplitMix,
    threads: Vec<Th>,
    current: u32,
    now_us: u64,
    step: u64,
    hash: u64,
    stats: Stats,
    devs_out: Vec<Deviation>,
    dev_map: BTreeMap<u64, Deviation>,
    pct_points: Vec<u64>,
    pct_low: u64,
    probe_log: Vec<(String, String)>,
    trace: Option<std::io::BufWriter<std::fs::File>>,
    dev_file: Option<std::fs::File>,
    last_progress_us: u64,
    finished: bool,
    /// simulated time added by injected faults (stalls, late starts, late timers): the
    /// simulated-time cap is there to catch code that waits for ever, not our own delays
    injected_us: u64,
}

pub struct Runtime {
    inner: Mutex<Inner>,
    abort_hook: Mutex<Option<Box<dyn Fn(&str) + Send + Sync>>>,
}

fn fnv(h: u64, x: u64) -> u64 {
    let mut h = h;
    for i in 0..8 {
        h ^= (x >> (i * 8)) & 0xff;
        h = h.wrapping_mul(0x100000001b3);
    }
    h
}

fn hash_str(s: &str) -> u64 {
    let mut h = 0xcbf29ce484222325u64;
    for b in s.bytes() {
        h ^= b as u64;
        h = h.wrapping_mul(0x100000001b3);
    }
    h
}

/// names of probes whose data is kept (the rest are only counted)
const KEPT_PROBES: &[&str] = &[
    "analysis",
    "auto_diag_seen",
    "auto_diag_first_seen",
    "lock_timeout",
    "harness",
    "check_file_begin",
    "check_file_end",
    "recheck_skipped_no_change",
];

impl Runtime {
    /// Creates the runtime, registers the calling thread as sim thread 0 and installs it.
    pub fn install(cfg: Config) -> &'static Runtime {
        let inner = Self::fresh_inner(cfg);
        let rt: &'static Runtime = Box::leak(Box::new(Runtime {
            inner: Mutex::new(inner),
            abort_hook: Mutex::new(None),
        }));
        erg_common::sim::install(Box::new(Handle(rt)));
        erg_common::sim::set_in_sim(true);
        rt
    }

    /// Starts a new scenario in the same process: the caller becomes sim thread 0 of a fresh
    /// state. Every other sim thread of the previous scenario must have finished.
    pub fn reset(&self, cfg: Config) {
        let mut g = self.inner.lock().unwrap();
        let alive = g
            .threads
            .iter()
            .enumerate()
            .filter(|(i, t)| *i as u32 != g.current && t.st != St::Finished)
            .count();
        assert_eq!(alive, 0, "reset with live sim threads");
        *g = Self::fresh_inner(cfg);
    }

    fn fresh_inner(cfg: Config) -> Inner {
        let mut rng = SplitMix::new(cfg.seed);
        let trace = cfg.trace_path.as_ref().map(|p| {
            std::io::BufWriter::new(std::fs::File::create(p).expect("cannot create trace file"))
        });
        let dev_file = cfg
            .dev_path
            .as_ref()
            .map(|p| std::fs::File::create(p).expect("cannot create deviation file"));
        let mut dev_map = BTreeMap::new();
        for d in cfg.deviations.iter() {
            dev_map.insert(d.step, d.clone());
        }
        let mut pct_points = vec![];
        if let Sched::Pct { d, est_len } = cfg.sched {
            for _ in 0..d {
                pct_points.push(rng.below(est_len.max(1)));
            }
            pct_points.sort();
        }
        let gate = Arc::new(Gate {
            go: AtomicBool::new(false),
            thread: Mutex::new(Some(std::thread::current())),
        });
        let main = Th {
            name: "main".into(),
            st: St::Runnable,
            wake_at: 0,
            tag: None,
            prio: rng.next() | (1 << 63),
            os_id: Some(std::thread::current().id()),
            gate,
            panicked: false,
            slow: false,
            stalled_ms: 0,
            last_site: "",
        };
        let inner = Inner {
            cfg,
            rng,
            threads: vec![main],
            current: 0,
            now_us: 0,
            step: 0,
            hash: 0xcbf29ce484222325,
            stats: Stats::default(),
            devs_out: vec![],
            dev_map,
            pct_points,
            pct_low: 1 << 62,
            probe_log: vec![],
            trace,
            dev_file,
            last_progress_us: 0,
            finished: false,
            injected_us: 0,
        };
        inner
    }

    /// called (on whichever thread notices) when a cap is exceeded; must not return
    pub fn set_abort_hook(&self, f: Box<dyn Fn(&str) + Send + Sync>) {
        *self.abort_hook.lock().unwrap() = Some(f);
    }

    pub fn now_us(&self) -> u64 {
        self.inner.lock().unwrap().now_us
    }

    pub fn stats(&self) -> Stats {
        let mut g = self.inner.lock().unwrap();
        g.stats.steps = g.step;
        g.stats.sim_time_us = g.now_us;
        g.stats.threads = g.threads.len() as u32;
        g.stats.log_hash = g.hash;
        if let Some(t) = g.trace.as_mut() {
            let _ = t.flush();
        }
        g.stats.clone()
    }

    pub fn deviations(&self) -> Vec<Deviation> {
        self.inner.lock().unwrap().devs_out.clone()
    }

    pub fn probe_log(&self) -> Vec<(String, String)> {
        self.inner.lock().unwrap().probe_log.clone()
    }

    pub fn record_panic(&self, msg: String) {
        let mut g = self.inner.lock().unwrap();
        let me = g.current;
        let name = g.threads[me as usize].name.clone();
        g.stats.panics.push(format!("[{name}] {msg}"));
    }

    /// number of sim threads that are not finished (including the caller)
    pub fn live_threads(&self) -> usize {
        let g = self.inner.lock().unwrap();
        g.threads.iter().filter(|t| t.st != St::Finished).count()
    }

    /// threads other than the caller that are runnable right now or will wake within `horizon`
    pub fn busy_threads(&self, horizon: Duration) -> usize {
        let g = self.inner.lock().unwrap();
        let lim = g.now_us + horizon.as_micros() as u64;
        g.threads
            .iter()
            .enumerate()
            .filter(|(i, t)| {
                *i as u32 != g.current
                    && match t.st {
                        St::Runnable => true,
                        St::NotStarted | St::Sleeping => t.wake_at <= lim,
                        St::Finished => false,
                    }
            })
            .count()
    }

    /// the caller lets simulated time pass until every other sim thread has finished
    pub fn join_all(&self) {
        while self.live_threads() > 1 {
            erg_common::sim::sleep(Duration::from_millis(1), "join_all");
        }
    }

    /// stats as JSON (for the harness result line)
    pub fn stats_json(&self) -> Value {
        let s = self.stats();
        json!({
            "steps": s.steps, "switches": s.switches, "sim_time_us": s.sim_time_us,
            "threads": s.threads, "max_runnable": s.max_runnable, "choice_points": s.choice_points,
            "faults": s.faults, "probes": s.probes, "sites": s.sites,
            "log_hash": format!("{:016x}", s.log_hash), "panics": s.panics, "aborted": s.aborted,
        })
    }

    fn abort(&self, mut g: std::sync::MutexGuard<'_, Inner>, why: &str) -> ! {
        g.stats.aborted = Some(why.to_string());
        g.finished = true;
        // who was doing what: thread name, state, the site it last passed
        let mut where_ = vec![];
        for t in g.threads.iter() {
            if t.st != St::Finished {
                where_.push(format!("{}:{:?}@{}", t.name, t.st, t.last_site));
            }
        }
        let why = format!("{why} [{}]", where_.join(" "));
        let why = why.as_str();
        drop(g);
        if let Some(h) = self.abort_hook.lock().unwrap().as_ref() {
            h(why);
        }
        eprintln!("simrt: abort: {why}");
        std::process::exit(3);
    }

    fn log_event(g: &mut Inner, tid: u32, kind: &str, site: &str, chosen: u32) {
        let mut h = g.hash;
        h = fnv(h, g.step);
        h = fnv(h, tid as u64);
        h = fnv(h, hash_str(kind));
        h = fnv(h, hash_str(site));
        h = fnv(h, chosen as u64);
        h = fnv(h, g.now_us);
        g.hash = h;
        if let Some(t) = g.trace.as_mut() {
            let _ = writeln!(t, "{} {} t{} {} {} -> t{}", g.step, g.now_us, tid, kind, site, chosen);
        }
    }

    fn record_dev(g: &mut Inner, step: u64, run: Option<u32>, fault: Option<(String, u64)>) {
        // merge with an existing deviation of the same step
        if let Some(last) = g.devs_out.last_mut() {
            if last.step == step {
                if run.is_some() {
                    last.run = run;
                }
                if fault.is_some() {
                    last.fault = fault;
                }
                if let Some(f) = g.dev_file.as_mut() {
                    let _ = writeln!(f, "{}", g.devs_out.last().unwrap().to_json());
                }
                return;
            }
        }
        let d = Deviation { step, run, fault };
        if let Some(f) = g.dev_file.as_mut() {
            let _ = writeln!(f, "{}", d.to_json());
        }
        g.devs_out.push(d);
    }

    /// Draws (or replays) a fault of `kind` for the current step; returns its duration in ms.
    fn draw_fault(g: &mut Inner, kind: &str, p: f64, max_ms: u64) -> Option<u64> {
        let step = g.step;
        match g.cfg.sched {
            Sched::Explicit => {
                let d = g.dev_map.get(&step)?;
                match &d.fault {
                    Some((k, ms)) if k == kind => {
                        let ms = *ms;
                        g.injected_us += ms * 1000;
                        Some(ms)
                    }
                    _ => None,
                }
            }
            Sched::Default => None,
            _ => {
                if p > 0.0 && max_ms > 0 && g.rng.chance(p) {
                    let ms = 1 + g.rng.below(max_ms);
                    g.injected_us += ms * 1000;
                    Self::record_dev(g, step, None, Some((kind.to_string(), ms)));
                    Some(ms)
                } else {
                    None
                }
            }
        }
    }

    /// The heart: the caller (`me`) has put itself into its new state; pick who runs next and
    /// hand the baton over. Returns when `me` holds the baton again (never, if it finished).
    fn reschedule(&self, mut g: std::sync::MutexGuard<'_, Inner>, me: u32, kind: &str, site: &str) {
        if g.finished {
            // the scenario is over (main called finish/abort): park for good
            drop(g);
            loop {
                std::thread::park();
            }
        }
        if g.step >= g.cfg.step_cap {
            self.abort(g, "step_cap");
        }
        let cap_us = (g.cfg.sim_time_cap.as_micros() as u64).saturating_add(g.injected_us);
        loop {
            // wake sleepers whose time has come
            let now = g.now_us;
            let mut runnable: Vec<u32> = vec![];
            for (i, t) in g.threads.iter_mut().enumerate() {
                match t.st {
                    St::Sleeping if t.wake_at <= now => {
                        t.st = St::Runnable;
                        t.tag = None;
                        runnable.push(i as u32);
                    }
                    St::NotStarted if t.wake_at <= now => runnable.push(i as u32),
                    St::Runnable => runnable.push(i as u32),
                    _ => {}
                }
            }
            if runnable.is_empty() {
                // discrete-event clock: jump to the next wake-up
                let next = g
                    .threads
                    .iter()
                    .filter(|t| matches!(t.st, St::Sleeping | St::NotStarted))
                    .map(|t| t.wake_at)
                    .min();
                match next {
                    Some(t) if t <= cap_us => {
                        g.now_us = t;
                        continue;
                    }
                    Some(_) => self.abort(g, "sim_time_cap"),
                    None => self.abort(g, "sim_deadlock"),
                }
            }
            let nrun = runnable.len() as u32;
            if nrun > g.stats.max_runnable {
                g.stats.max_runnable = nrun;
            }
            if nrun >= 2 {
                g.stats.choice_points += 1;
            }
            let me_runnable = runnable.contains(&me);
            let default = if me_runnable { me } else { runnable[0] };
            let step = g.step;
            let chosen = match g.cfg.sched.clone() {
                Sched::Default => default,
                Sched::Explicit => match g.dev_map.get(&step).and_then(|d| d.run) {
                    Some(r) if runnable.contains(&r) => r,
                    _ => default,
                },
                Sched::Random { p_preempt } => {
                    if me_runnable {
                        if nrun >= 2 && g.rng.chance(p_preempt) {
                            let others: Vec<u32> =
                                runnable.iter().copied().filter(|&r| r != me).collect();
                            let k = g.rng.below(others.len() as u64) as usize;
                            *g.stats.faults.entry("preempt".into()).or_insert(0) += 1;
                            others[k]
                        } else {
                            me
                        }
                    } else {
                        let k = g.rng.below(nrun as u64) as usize;
                        runnable[k]
                    }
                }
                Sched::Pct { .. } => {
                    while g.pct_points.first().is_some_and(|&p| p <= step) {
                        g.pct_points.remove(0);
                        g.pct_low -= 1;
                        let low = g.pct_low;
                        g.threads[me as usize].prio = low;
                        *g.stats.faults.entry("pct_change".into()).or_insert(0) += 1;
                    }
                    let best = *runnable
                        .iter()
                        .max_by_key(|&&r| g.threads[r as usize].prio)
                        .unwrap();
                    if me_runnable && best != me {
                        *g.stats.faults.entry("preempt".into()).or_insert(0) += 1;
                    }
                    best
                }
            };
            if chosen != default && !matches!(g.cfg.sched, Sched::Explicit) {
                Self::record_dev(&mut g, step, Some(chosen), None);
            } else if chosen != default {
                // keep the list of deviations actually taken (explicit mode)
                Self::record_dev(&mut g, step, Some(chosen), None);
            }
            Self::log_event(&mut g, me, kind, site, chosen);
            g.step += 1;
            if chosen == me {
                return;
            }
            g.stats.switches += 1;
            g.current = chosen;
            if g.threads[chosen as usize].st == St::NotStarted {
                g.threads[chosen as usize].st = St::Runnable;
            }
            let next_gate = g.threads[chosen as usize].gate.clone();
            let my_gate = g.threads[me as usize].gate.clone();
            let i_am_done = g.threads[me as usize].st == St::Finished;
            let linger = g.cfg.linger;
            drop(g);
            next_gate.go.store(true, Ordering::SeqCst);
            if let Some(t) = next_gate.thread.lock().unwrap().as_ref() {
                t.unpark();
            }
            if i_am_done {
                if !linger {
                    return;
                }
                // linger: the OS thread (and its thread-locals) stays until process exit
                loop {
                    std::thread::park();
                }
            }
            while !my_gate.go.swap(false, Ordering::SeqCst) {
                std::thread::park();
            }
            return;
        }
    }

    fn me(g: &Inner) -> u32 {
        g.current
    }
}

struct Handle(&'static Runtime);

impl SimRuntime for Handle {
    fn point(&self, site: &'static str) {
        let rt = self.0;
        let mut g = rt.inner.lock().unwrap();
        let me = Runtime::me(&g);
        g.threads[me as usize].last_site = site;
        *g.stats.sites.entry(site.to_string()).or_insert(0) += 1;
        let (mut p, mut max) = (g.cfg.faults.stall_p, g.cfg.faults.stall_max_ms);
        if g.threads[me as usize].slow {
            p = g.cfg.faults.slow_point_p;
            max = g.cfg.faults.slow_max_ms;
        }
        let budget = g.cfg.faults.stall_budget_ms;
        if budget > 0 && g.threads[me as usize].stalled_ms >= budget && !matches!(g.cfg.sched, Sched::Explicit) {
            p = 0.0;
        }
        if let Some(ms) = Runtime::draw_fault(&mut g, "stall", p, max) {
            g.threads[me as usize].stalled_ms += ms;
            *g.stats.faults.entry("stall".into()).or_insert(0) += 1;
            let now = g.now_us;
            let t = &mut g.threads[me as usize];
            t.st = St::Sleeping;
            t.wake_at = now + ms * 1000;
            t.tag = None;
        }
        rt.reschedule(g, me, "point", site);
    }

    fn sleep(&self, d: Duration, site: &'static str, tag: Option<&'static str>) {
        let rt = self.0;
        let mut g = rt.inner.lock().unwrap();
        let me = Runtime::me(&g);
        let mut us = d.as_micros() as u64;
        let (p, max) = (g.cfg.faults.timer_late_p, g.cfg.faults.timer_late_max_ms);
        if us >= 10_000 {
            if let Some(ms) = Runtime::draw_fault(&mut g, "timer_late", p, max) {
                *g.stats.faults.entry("timer_late".into()).or_insert(0) += 1;
                us += ms * 1000;
            }
        }
        let now = g.now_us;
        let t = &mut g.threads[me as usize];
        t.st = St::Sleeping;
        t.wake_at = now + us.max(1);
        t.tag = tag;
        t.last_site = site;
        rt.reschedule(g, me, "sleep", site);
    }

    fn before_spawn(&self, name: &str) -> SimTid {
        let rt = self.0;
        let mut g = rt.inner.lock().unwrap();
        let id = g.threads.len() as u32;
        let prio = g.rng.next() | (1 << 63);
        let mut start = g.now_us;
        let (p, max) = (g.cfg.faults.late_start_p, g.cfg.faults.late_start_max_ms);
        if let Some(ms) = Runtime::draw_fault(&mut g, "late_start", p, max) {
            *g.stats.faults.entry("late_start".into()).or_insert(0) += 1;
            start += ms * 1000;
        }
        let slow = match g.cfg.sched {
            Sched::Explicit | Sched::Default => false,
            _ => {
                let p = g.cfg.faults.slow_thread_p;
                p > 0.0 && g.rng.chance(p)
            }
        };
        if slow {
            *g.stats.faults.entry("slow_thread".into()).or_insert(0) += 1;
        }
        g.threads.push(Th {
            name: name.to_string(),
            st: St::NotStarted,
            wake_at: start,
            tag: None,
            prio,
            os_id: None,
            gate: Arc::new(Gate {
                go: AtomicBool::new(false),
                thread: Mutex::new(None),
            }),
            panicked: false,
            slow,
            stalled_ms: 0,
            last_site: "",
        });
        id
    }

    fn after_spawn(&self, child: SimTid, os: ThreadId) {
        let rt = self.0;
        let mut g = rt.inner.lock().unwrap();
        g.threads[child as usize].os_id = Some(os);
        let me = Runtime::me(&g);
        rt.reschedule(g, me, "spawn", "spawn");
    }

    fn thread_enter(&self, me: SimTid) {
        let rt = self.0;
        let gate = {
            let g = rt.inner.lock().unwrap();
            g.threads[me as usize].gate.clone()
        };
        *gate.thread.lock().unwrap() = Some(std::thread::current());
        while !gate.go.swap(false, Ordering::SeqCst) {
            std::thread::park();
        }
    }

    fn thread_exit(&self, panicked: bool) {
        let rt = self.0;
        let mut g = rt.inner.lock().unwrap();
        let me = Runtime::me(&g);
        g.threads[me as usize].st = St::Finished;
        g.threads[me as usize].panicked = panicked;
        g.last_progress_us = g.now_us;
        rt.reschedule(g, me, if panicked { "exit_panic" } else { "exit" }, "exit");
    }

    fn is_finished(&self, os: ThreadId) -> Option<bool> {
        let g = self.0.inner.lock().unwrap();
        g.threads
            .iter()
            .find(|t| t.os_id == Some(os))
            .map(|t| t.st == St::Finished)
    }

    fn notify(&self, tag: &'static str) {
        let mut g = self.0.inner.lock().unwrap();
        let now = g.now_us;
        for t in g.threads.iter_mut() {
            if t.st == St::Sleeping && t.tag == Some(tag) {
                t.wake_at = now;
            }
        }
    }

    fn now(&self) -> Duration {
        Duration::from_micros(self.0.inner.lock().unwrap().now_us)
    }

    fn probe(&self, name: &'static str, data: &str) {
        let mut g = self.0.inner.lock().unwrap();
        *g.stats.probes.entry(name.to_string()).or_insert(0) += 1;
        if KEPT_PROBES.contains(&name) && g.probe_log.len() < 10_000 {
            let me = g.current;
            let tn = g.threads[me as usize].name.clone();
            g.probe_log.push((name.to_string(), format!("{data} @{tn}")));
        }
        let me = g.current;
        let mut h = g.hash;
        h = fnv(h, hash_str(name));
        h = fnv(h, hash_str(data));
        h = fnv(h, me as u64);
        g.hash = h;
        let step = g.step;
        if let Some(t) = g.trace.as_mut() {
            let _ = writeln!(t, "{step} probe t{me} {name} {data}");
        }
    }
}

/// Installs a panic hook that records every panic (message and location) of a sim thread
/// in the runtime and keeps stderr quiet unless `verbose`.
pub fn install_panic_hook(rt: &'static Runtime, verbose: bool) {
    std::panic::set_hook(Box::new(move |info| {
        let loc = info
            .location()
            .map(|l| format!("{}:{}", l.file(), l.line()))
            .unwrap_or_default();
        let msg = if let Some(s) = info.payload().downcast_ref::<&str>() {
            s.to_string()
        } else if let Some(s) = info.payload().downcast_ref::<String>() {
            s.clone()
        } else {
            "<non-string panic>".to_string()
        };
        if verbose {
            eprintln!("sim thread panicked at {loc}: {msg}");
            eprintln!("{}", std::backtrace::Backtrace::force_capture());
        }
        // the runtime mutex is never held while user code runs, so this cannot deadlock
        rt.record_panic(format!("{loc}: {msg}"));
    }));
}

/// pins the process to one core: hand-offs cost ~15 us instead of ~75 us
pub fn pin_to_core(core: usize) {
    unsafe {
        let mut set: libc::cpu_set_t = std::mem::zeroed();
        libc::CPU_SET(core % 1024, &mut set);
        libc::sched_setaffinity(0, std::mem::size_of::<libc::cpu_set_t>(), &set);
    }
}

/// Makes each `real` directory visible at its fixed path for this process only (private mount
/// namespace + bind mounts). erg keys its module tables by absolute path with a non-random
/// hash, so the iteration order of those tables - and with it the sequence of hook calls -
/// depends on where the project lives: every worker must see its project at the same path
/// for a seed to mean the same execution on every worker and in a replay.
/// Must be called before any thread is spawned. Returns false when the sandbox does not
/// allow it (then replays are exact only from the same directory).
pub fn mounts(pairs: &[(String, String)]) -> bool {
    use std::ffi::CString;
    let c = |s: &str| CString::new(s).unwrap();
    unsafe {
        if libc::unshare(libc::CLONE_NEWNS) != 0 {
            return false;
        }
        let root = c("/");
        let none = c("none");
        if libc::mount(
            none.as_ptr(),
            root.as_ptr(),
            std::ptr::null(),
            libc::MS_REC | libc::MS_PRIVATE,
            std::ptr::null(),
        ) != 0
        {
            return false;
        }
        for (real, fixed) in pairs {
            let (r, f) = (c(real), c(fixed));
            if libc::mount(r.as_ptr(), f.as_ptr(), std::ptr::null(), libc::MS_BIND, std::ptr::null()) != 0 {
                return false;
            }
        }
    }
    true
}

/// one directory, see [`mounts`]; returns the path to use
pub fn mount_at(real: &str, fixed: &str) -> String {
    if mounts(&[(real.to_string(), fixed.to_string())]) {
        fixed.to_string()
    } else {
        real.to_string()
    }
}

/// On SIGSEGV / SIGBUS / SIGILL / SIGFPE / SIGABRT writes `CRASH signal=<n> thread=<name>` to stderr and lets
/// the default action kill the process: a memory-safety failure is then attributable to the sim
/// thread it happened in. (The handler runs on the faulting thread itself, on the alternate stack
/// std installs for every thread; it replaces std's stack-overflow reporter.)
pub fn install_crash_reporter() {
    if std::env::var_os("ASAN_OPTIONS").is_some() {
        return; // the sanitizer build reports crashes itself
    }
    extern "C" fn on_crash(sig: libc::c_int, _info: *mut libc::siginfo_t, _ctx: *mut libc::c_void) {
        let mut buf = [0u8; 160];
        let mut n = 0usize;
        let mut put = |bytes: &[u8]| {
            for &b in bytes {
                if n < buf.len() {
                    buf[n] = b;
                    n += 1;
                }
            }
        };
        put(b"\nCRASH signal=");
        put(&[b'0' + (sig / 10) as u8 % 10, b'0' + (sig % 10) as u8]);
        put(b" thread=");
        let cur = std::thread::current();
        match cur.name() {
            Some(name) => put(name.as_bytes()),
            None => put(b"?"),
        }
        put(b"\n");
        unsafe {
            libc::write(2, buf.as_ptr() as *const libc::c_void, n);
            // SA_RESETHAND: returning re-executes the faulting instruction under the default action
        }
    }
    unsafe {
        let mut sa: libc::sigaction = std::mem::zeroed();
        sa.sa_sigaction = on_crash as usize;
        sa.sa_flags = libc::SA_SIGINFO | libc::SA_ONSTACK | libc::SA_RESETHAND;
        libc::sigemptyset(&mut sa.sa_mask);
        for sig in [libc::SIGSEGV, libc::SIGBUS, libc::SIGILL, libc::SIGFPE, libc::SIGABRT] {
            libc::sigaction(sig, &sa, std::ptr::null_mut());
        }
    }
}
