//! command-line plumbing shared by the harness binaries

use std::collections::BTreeMap;
use std::time::Duration;

use serde_json::{json, Value};

use crate::{Config, Deviation, FaultCfg, Sched, SplitMix};

/// `--key value` pairs and bare `--flag`s
pub struct Args {
    pub kv: BTreeMap<String, String>,
}

impl Args {
    pub fn parse() -> Self {
        let mut kv = BTreeMap::new();
        let argv: Vec<String> = std::env::args().skip(1).collect();
        let mut i = 0;
        while i < argv.len() {
            let a = &argv[i];
            if let Some(k) = a.strip_prefix("--") {
                if i + 1 < argv.len() && !argv[i + 1].starts_with("--") {
                    kv.insert(k.to_string(), argv[i + 1].clone());
                    i += 2;
                } else {
                    kv.insert(k.to_string(), "1".to_string());
                    i += 1;
                }
            } else {
                eprintln!("unexpected argument: {a}");
                std::process::exit(2);
            }
        }
        Self { kv }
    }
    pub fn get(&self, k: &str) -> Option<&str> {
        self.kv.get(k).map(|s| s.as_str())
    }
    pub fn has(&self, k: &str) -> bool {
        self.kv.contains_key(k)
    }
    pub fn u64(&self, k: &str, default: u64) -> u64 {
        self.get(k).map(|v| v.parse().expect(k)).unwrap_or(default)
    }
    pub fn f64(&self, k: &str, default: f64) -> f64 {
        self.get(k).map(|v| v.parse().expect(k)).unwrap_or(default)
    }
}

/// Per-run knobs drawn from the run's seed ("swarm"): scheduler kind, preemption rate,
/// which fault kinds are enabled and how often they fire.
pub fn swarm(seed: u64, est_len: u64) -> (Sched, FaultCfg) {
    let mut r = SplitMix::derive(seed, "knobs", 0);
    let sched = match r.below(10) {
        0..=5 => {
            // log-uniform 1 % .. 50 %
            let p = 0.01 * (50.0f64).powf((r.below(1000) as f64) / 1000.0);
            Sched::Random { p_preempt: p }
        }
        6..=8 => Sched::Pct {
            d: 1 + r.below(3) as u32,
            est_len,
        },
        _ => Sched::Random { p_preempt: 0.0 },
    };
    let mut f = FaultCfg::default();
    if r.chance(0.4) {
        f.stall_p = 0.0005 * (1 + r.below(20)) as f64;
        f.stall_max_ms = 1 + r.below(50);
    }
    if r.chance(0.4) {
        f.late_start_p = 0.1 + 0.4 * (r.below(100) as f64) / 100.0;
        f.late_start_max_ms = 1 + r.below(200);
    }
    if r.chance(0.4) {
        f.timer_late_p = 0.05 + 0.3 * (r.below(100) as f64) / 100.0;
        f.timer_late_max_ms = 1 + r.below(300);
    }
    if r.chance(0.35) {
        f.slow_thread_p = 0.2 + 0.4 * (r.below(100) as f64) / 100.0;
        f.slow_point_p = 0.01 * (1 + r.below(15)) as f64;
        f.slow_max_ms = 1 + r.below(30);
    }
    (sched, f)
}

pub fn knobs_json(cfg: &Config) -> Value {
    let sched = match &cfg.sched {
        Sched::Default => json!({"kind": "default"}),
        Sched::Random { p_preempt } => json!({"kind": "random", "p_preempt": p_preempt}),
        Sched::Pct { d, est_len } => json!({"kind": "pct", "d": d, "est_len": est_len}),
        Sched::Explicit => json!({"kind": "explicit"}),
    };
    json!({
        "sched": sched,
        "stall": [cfg.faults.stall_p, cfg.faults.stall_max_ms],
        "late_start": [cfg.faults.late_start_p, cfg.faults.late_start_max_ms],
        "timer_late": [cfg.faults.timer_late_p, cfg.faults.timer_late_max_ms],
        "slow_thread": [cfg.faults.slow_thread_p, cfg.faults.slow_point_p, cfg.faults.slow_max_ms],
    })
}

/// Builds the runtime configuration from the common options:
/// `--seed N` `--sched default|random|pct|swarm|explicit` `--p-preempt F` `--pct-d N`
/// `--est-len N` `--devs-in FILE` (JSON list of deviations, implies explicit)
/// `--trace FILE` `--devs-out FILE` `--step-cap N` `--time-cap-s N` `--no-faults`
pub fn runtime_config(args: &Args, est_len_default: u64) -> Config {
    let seed = args.u64("seed", 1);
    let est_len = args.u64("est-len", est_len_default);
    let mut cfg = Config {
        seed,
        ..Config::default()
    };
    match args.get("sched").unwrap_or("default") {
        "default" => cfg.sched = Sched::Default,
        "random" => {
            cfg.sched = Sched::Random {
                p_preempt: args.f64("p-preempt", 0.05),
            }
        }
        "pct" => {
            cfg.sched = Sched::Pct {
                d: args.u64("pct-d", 2) as u32,
                est_len,
            }
        }
        "swarm" => {
            let (s, f) = swarm(seed, est_len);
            cfg.sched = s;
            if !args.has("no-faults") {
                cfg.faults = f;
            }
        }
        "explicit" => cfg.sched = Sched::Explicit,
        other => {
            eprintln!("unknown --sched {other}");
            std::process::exit(2);
        }
    }
    if let Some(p) = args.get("devs-in") {
        let text = std::fs::read_to_string(p).expect("cannot read --devs-in");
        let v: Value = serde_json::from_str(&text).expect("bad json in --devs-in");
        let list = v
            .get("deviations")
            .cloned()
            .unwrap_or(v)
            .as_array()
            .cloned()
            .unwrap_or_default();
        cfg.deviations = list.iter().filter_map(Deviation::from_json).collect();
        cfg.sched = Sched::Explicit;
    }
    cfg.faults.stall_budget_ms = args.u64("stall-budget-ms", 0);
    cfg.trace_path = args.get("trace").map(|s| s.to_string());
    cfg.dev_path = args.get("devs-out").map(|s| s.to_string());
    cfg.step_cap = args.u64("step-cap", cfg.step_cap);
    cfg.sim_time_cap = Duration::from_secs(args.u64("time-cap-s", 600));
    cfg
}
