//! simels — the whole real language server (dispatcher, one worker thread per request kind,
//! auto- and workspace-diagnostics threads, optional std-lib loader) under the simulator. The
//! harness thread plays the LSP client: it calls `Server::dispatch` with the JSON-RPC messages
//! of a scripted history, drains the server's output channel, answers the server's own
//! requests (`workspace/configuration`, `window/workDoneProgress/create`) and lets simulated
//! time pass. It prints one JSON line: document snapshots, the last `publishDiagnostics` per
//! URI, responses, dispatch errors, panics, runtime statistics.
//!
//! usage: simels --dir WORKSPACE --script FILE.json [--mount-at P] [--ergpath REAL --ergpath-at P]
//!               [--pin CORE] <runtime options, see simrt::cli>

use std::collections::BTreeMap;
use std::panic::{catch_unwind, AssertUnwindSafe};
use std::sync::mpsc;
use std::time::Duration;

use erg_common::config::{ErgConfig, ErgMode};
use erg_common::vfs::VFS;

use els::{NormalizedUrl, Server};

use simrt::cli::{knobs_json, runtime_config, Args};
use simrt::serde_json::{self, json, Value};
use simrt::Runtime;

struct Client {
    server: Server,
    rx: mpsc::Receiver<Value>,
    rt: &'static Runtime,
    autosave: String,
    diags: BTreeMap<String, Value>,
    diag_log: Vec<Value>,
    responses: BTreeMap<i64, Value>,
    errors: Vec<String>,
    received: u64,
    dispatch_panics: Vec<String>,
}

impl Client {
    fn dispatch(&mut self, msg: Value) {
        let what = msg.get("method").and_then(|m| m.as_str()).unwrap_or("response").to_string();
        let res = catch_unwind(AssertUnwindSafe(|| self.server.dispatch(msg)));
        match res {
            Ok(Ok(())) => {}
            Ok(Err(e)) => self.errors.push(format!("{what}: {e}")),
            Err(_) => self.dispatch_panics.push(what),
        }
    }

    /// takes everything the server has sent so far; answers the server's own requests
    fn pump(&mut self) {
        loop {
            let msg = match self.rx.try_recv() {
                Ok(m) => m,
                Err(_) => break,
            };
            self.received += 1;
            let method = msg.get("method").and_then(|m| m.as_str()).map(|s| s.to_string());
            let id = msg.get("id").and_then(|i| i.as_i64());
            match (method.as_deref(), id) {
                (Some("workspace/configuration"), Some(id)) => {
                    let reply = json!({"jsonrpc": "2.0", "id": id, "result": [self.autosave]});
                    self.dispatch(reply);
                }
                (Some("window/workDoneProgress/create"), Some(id)) => {
                    let reply = json!({"jsonrpc": "2.0", "id": id, "result": null});
                    self.dispatch(reply);
                }
                (Some("textDocument/publishDiagnostics"), _) => {
                    let uri = msg["params"]["uri"].as_str().unwrap_or("").to_string();
                    let d = msg["params"]["diagnostics"].clone();
                    self.diag_log.push(json!({"t_us": self.rt.now_us(), "uri": uri,
                        "n": d.as_array().map(|a| a.len()).unwrap_or(0)}));
                    self.diags.insert(uri, d);
                }
                (None, Some(id)) => {
                    self.responses.insert(id, msg);
                }
                _ => {}
            }
        }
    }

    fn wait(&mut self, ms: u64) {
        // in slices, so that the client answers server requests promptly, like a real one
        let mut left = ms;
        while left > 0 {
            let step = left.min(20);
            erg_common::sim::sleep(Duration::from_millis(step), "client_wait");
            left -= step;
            self.pump();
        }
    }
}

fn emit(out: Option<&str>, v: &Value) {
    let line = format!("{v}\n");
    match out {
        Some(p) => std::fs::write(p, line).expect("cannot write --out"),
        None => {
            use std::io::Write;
            let so = std::io::stdout();
            let mut so = so.lock();
            let _ = so.write_all(line.as_bytes());
            let _ = so.flush();
        }
    }
}

fn main() {
    let args = Args::parse();
    if let Some(core) = args.get("pin") {
        simrt::pin_to_core(core.parse().expect("--pin"));
    }
    let mut dir = args.get("dir").expect("--dir").to_string();
    let mut pairs = vec![];
    if let Some(fixed) = args.get("mount-at") {
        pairs.push((dir.clone(), fixed.to_string()));
    }
    if let (Some(real), Some(fixed)) = (args.get("ergpath"), args.get("ergpath-at")) {
        pairs.push((real.to_string(), fixed.to_string()));
    }
    let mut mounted = false;
    if !pairs.is_empty() && simrt::mounts(&pairs) {
        mounted = true;
        if let Some(fixed) = args.get("mount-at") {
            dir = fixed.to_string();
        }
        if let Some(fixed) = args.get("ergpath-at") {
            std::env::set_var("ERG_PATH", fixed);
        }
    } else if let Some(real) = args.get("ergpath") {
        std::env::set_var("ERG_PATH", real);
    }
    std::env::set_current_dir(&dir).expect("cannot chdir to --dir");
    let out = args.get("out").map(|s| s.to_string());
    let script: Value = serde_json::from_str(
        &std::fs::read_to_string(args.get("script").expect("--script")).expect("cannot read --script"),
    )
    .expect("bad script json");

    let python = args.get("python").unwrap_or("python3").to_string();
    let _ = erg_common::env::PYTHON_PATH.set(Ok(python));
    let _ = erg_common::env::PYTHON_SYS_PATH.set(vec![]);
    let _ = erg_common::env::PYTHON_SITE_PACKAGES.set(vec![]);

    let rcfg = runtime_config(&args, 60_000);
    let knobs = knobs_json(&rcfg);
    let seed = rcfg.seed;
    let rt = Runtime::install(rcfg);
    simrt::install_panic_hook(rt, args.has("verbose"));
    simrt::install_crash_reporter();
    {
        let out = out.clone();
        let knobs = knobs.clone();
        rt.set_abort_hook(Box::new(move |why| {
            emit(out.as_deref(), &json!({"harness": "simels", "seed": seed, "class": why, "knobs": knobs}));
        }));
    }

    let mut runtime_args: Vec<&'static str> = vec![];
    if !script["deepcompletion"].as_bool().unwrap_or(false) {
        runtime_args.push("--disable");
        runtime_args.push("deepcompletion");
    }
    let cfg = ErgConfig {
        mode: ErgMode::LanguageServer,
        runtime_args: runtime_args.into(),
        ..ErgConfig::default()
    };
    let (tx, rx) = mpsc::channel();
    let server = Server::new(cfg, Some(tx));
    // Server::new installs its own panic hook (logs, then calls the previous one = ours)
    let mut cl = Client {
        server,
        rx,
        rt,
        autosave: script["autosave"].as_str().unwrap_or("off").to_string(),
        diags: BTreeMap::new(),
        diag_log: vec![],
        responses: BTreeMap::new(),
        errors: vec![],
        received: 0,
        dispatch_panics: vec![],
    };

    let mut snapshots: Vec<Value> = vec![];
    let mut unanswered: Vec<i64> = vec![];
    let steps = script["steps"].as_array().cloned().unwrap_or_default();
    for (i, st) in steps.iter().enumerate() {
        if let Some(msg) = st.get("send") {
            cl.dispatch(msg.clone());
            cl.pump();
        } else if let Some(msg) = st.get("request") {
            let id = msg["id"].as_i64().expect("request without id");
            cl.dispatch(msg.clone());
            // answered within 5 s of simulated time
            let deadline = rt.now_us() + 5_000_000;
            loop {
                cl.pump();
                if cl.responses.contains_key(&id) {
                    break;
                }
                if rt.now_us() >= deadline {
                    unanswered.push(id);
                    break;
                }
                erg_common::sim::sleep(Duration::from_millis(10), "client_wait_response");
            }
        } else if let Some(ms) = st.get("wait_ms").and_then(|m| m.as_u64()) {
            cl.wait(ms);
        } else if let Some(uris) = st.get("snapshot").and_then(|u| u.as_array()) {
            for u in uris {
                let Some(us) = u.as_str() else { continue };
                let (fc, vfs) = match NormalizedUrl::parse(us) {
                    Ok(nu) => {
                        let fc = catch_unwind(AssertUnwindSafe(|| {
                            cl.server.get_file_cache().get_entire_code(&nu).ok()
                        }))
                        .unwrap_or(None);
                        let vfs = nu
                            .to_file_path()
                            .ok()
                            .and_then(|p| catch_unwind(AssertUnwindSafe(|| VFS.read(&p).ok())).unwrap_or(None));
                        (fc, vfs)
                    }
                    Err(_) => (None, None),
                };
                snapshots.push(json!({"step": i, "uri": us, "file_cache": fc, "vfs": vfs}));
            }
        }
    }
    cl.pump();

    let stats = rt.stats_json();
    let probes: Vec<Value> = rt.probe_log().into_iter().map(|(n, d)| json!([n, d])).collect();
    let class = if !cl.dispatch_panics.is_empty() || !stats["panics"].as_array().unwrap().is_empty() {
        "panic"
    } else {
        "done"
    };
    let responses: BTreeMap<String, Value> =
        cl.responses.iter().map(|(k, v)| (k.to_string(), v.clone())).collect();
    let v = json!({
        "harness": "simels", "seed": seed, "class": class, "mounted": mounted, "dir": dir,
        "snapshots": snapshots, "diags": cl.diags, "diag_log": cl.diag_log, "responses": responses,
        "unanswered": unanswered, "errors": cl.errors, "dispatch_panics": cl.dispatch_panics,
        "received": cl.received, "stats": stats, "probe_log": probes, "knobs": knobs,
        "deviations": rt.deviations().iter().map(|d| d.to_json()).collect::<Vec<_>>(),
        "live_threads": rt.live_threads(),
    });
    emit(out.as_deref(), &v);
    std::process::exit(0);
}
