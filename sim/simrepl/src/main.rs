//! simrepl — C25: the real REPL client (`erg::DummyVM`: compiler + message framing) connected
//! through `DummyVM::with_stream` to an in-memory byte stream whose other end is the real
//! `repl_server.py`, run unmodified by py/repl_node.py under a fake `socket` module. Every
//! `read`/`write`/`recv`/`send` on either side is answered by this process: how many bytes it
//! moves, whether it is interrupted (EINTR, Rust side only), whether the peer stalls.
//!
//! modes:
//!   --mode e2e   --script FILE   REPL inputs evaluated in order; one JSON line per input is
//!                                appended to --out as it completes (the client calls
//!                                process::exit on I/O errors, so results must survive that)
//!   --mode codec --seed N --count K   the Rust framing against a reference codec over every
//!                                split of short frames and seeded splits of long ones

use std::collections::VecDeque;
use std::io::{Read, Write};
use std::process::{Child, ChildStdin, ChildStdout, Command, Stdio};
use std::sync::{Arc, Mutex};

use erg_common::config::ErgConfig;
use erg_common::traits::Runnable;

use erg::DummyVM;

use simrt::cli::Args;
use simrt::serde_json::{self, json, Value};
use simrt::SplitMix;

#[derive(Debug, Default, Clone)]
struct IoStats {
    reads: u64,
    short_reads: u64,
    writes: u64,
    short_writes: u64,
    eintr: u64,
    py_recv: u64,
    py_short_recv: u64,
    py_send: u64,
    py_short_send: u64,
    bytes_c2s: u64,
    bytes_s2c: u64,
    stalls: u64,
    both_waiting: u64,
}

#[derive(Debug)]
enum Py {
    NeedRequest,
    WaitingRecv(usize),
    Closed,
}

struct Link {
    _child: Child,
    to_py: ChildStdin,
    from_py: ChildStdout,
    c2s: VecDeque<u8>,
    s2c: VecDeque<u8>,
    py: Py,
    rng: SplitMix,
    split: bool,
    eintr: bool,
    /// withhold the server's bytes once, when the client waits for reply number `stall_at`
    stall_at: Option<u64>,
    replies_started: u64,
    stats: IoStats,
}

impl Link {
    fn read_exact_py(&mut self, n: usize) -> Option<Vec<u8>> {
        let mut buf = vec![0u8; n];
        match self.from_py.read_exact(&mut buf) {
            Ok(()) => Some(buf),
            Err(_) => None,
        }
    }

    fn answer(&mut self, payload: &[u8]) {
        let mut m = (payload.len() as u32).to_be_bytes().to_vec();
        m.extend_from_slice(payload);
        let _ = self.to_py.write_all(&m);
        let _ = self.to_py.flush();
    }

    /// lets the Python side run until it waits for bytes that are not there (or has gone)
    fn pump(&mut self) {
        loop {
            match self.py {
                Py::Closed => return,
                Py::WaitingRecv(n) => {
                    if self.c2s.is_empty() {
                        return;
                    }
                    let avail = n.min(self.c2s.len());
                    let k = if self.split && avail > 1 {
                        1 + self.rng.below(avail as u64) as usize
                    } else {
                        avail
                    };
                    self.stats.py_recv += 1;
                    if k < n {
                        self.stats.py_short_recv += 1;
                    }
                    let bytes: Vec<u8> = self.c2s.drain(..k).collect();
                    self.answer(&bytes);
                    self.py = Py::NeedRequest;
                }
                Py::NeedRequest => {
                    let Some(hdr) = self.read_exact_py(5) else {
                        self.py = Py::Closed;
                        return;
                    };
                    let len = u32::from_be_bytes([hdr[1], hdr[2], hdr[3], hdr[4]]) as usize;
                    match hdr[0] {
                        b'R' => self.py = Py::WaitingRecv(len),
                        b'S' => {
                            let Some(data) = self.read_exact_py(len) else {
                                self.py = Py::Closed;
                                return;
                            };
                            let k = if self.split && len > 1 {
                                1 + self.rng.below(len as u64) as usize
                            } else {
                                len
                            };
                            self.stats.py_send += 1;
                            if k < len {
                                self.stats.py_short_send += 1;
                            }
                            self.s2c.extend(&data[..k]);
                            self.stats.bytes_s2c += k as u64;
                            self.answer(&(k as u32).to_be_bytes());
                        }
                        _ => {
                            self.py = Py::Closed;
                            return;
                        }
                    }
                }
            }
        }
    }
}

#[derive(Clone)]
struct SimSock(Arc<Mutex<Link>>);

impl std::fmt::Debug for SimSock {
    fn fmt(&self, f: &mut std::fmt::Formatter<'_>) -> std::fmt::Result {
        write!(f, "SimSock")
    }
}

impl Read for SimSock {
    fn read(&mut self, buf: &mut [u8]) -> std::io::Result<usize> {
        let mut l = self.0.lock().unwrap();
        if buf.is_empty() {
            return Ok(0);
        }
        l.stats.reads += 1;
        if l.eintr && l.rng.chance(0.1) {
            l.stats.eintr += 1;
            return Err(std::io::Error::new(std::io::ErrorKind::Interrupted, "simulated EINTR"));
        }
        if l.s2c.is_empty() {
            l.pump();
        }
        if let Some(at) = l.stall_at {
            // the first read of reply number `at`: the peer is slower than the read time-out
            if l.replies_started == at && !l.s2c.is_empty() {
                l.stall_at = None;
                l.stats.stalls += 1;
                return Err(std::io::Error::new(std::io::ErrorKind::WouldBlock, "simulated read time-out (peer stalled)"));
            }
        }
        if l.s2c.is_empty() {
            if matches!(l.py, Py::Closed) {
                return Ok(0);
            }
            // both ends wait for bytes: on a real socket this is the 10 s read time-out
            l.stats.both_waiting += 1;
            return Err(std::io::Error::new(std::io::ErrorKind::WouldBlock, "simulated read time-out (both ends waiting)"));
        }
        let avail = buf.len().min(l.s2c.len());
        let k = if l.split && avail > 1 { 1 + l.rng.below(avail as u64) as usize } else { avail };
        if k < buf.len() {
            l.stats.short_reads += 1;
        }
        for b in buf.iter_mut().take(k) {
            *b = l.s2c.pop_front().unwrap();
        }
        Ok(k)
    }
}

impl Write for SimSock {
    fn write(&mut self, buf: &[u8]) -> std::io::Result<usize> {
        let mut l = self.0.lock().unwrap();
        if buf.is_empty() {
            return Ok(0);
        }
        l.stats.writes += 1;
        if l.eintr && l.rng.chance(0.1) {
            l.stats.eintr += 1;
            return Err(std::io::Error::new(std::io::ErrorKind::Interrupted, "simulated EINTR"));
        }
        let k = if l.split && buf.len() > 1 { 1 + l.rng.below(buf.len() as u64) as usize } else { buf.len() };
        if k < buf.len() {
            l.stats.short_writes += 1;
        }
        l.c2s.extend(&buf[..k]);
        l.stats.bytes_c2s += k as u64;
        Ok(k)
    }
    fn flush(&mut self) -> std::io::Result<()> {
        Ok(())
    }
}

fn stats_json(s: &IoStats) -> Value {
    json!({
        "reads": s.reads, "short_reads": s.short_reads, "writes": s.writes, "short_writes": s.short_writes,
        "eintr": s.eintr, "py_recv": s.py_recv, "py_short_recv": s.py_short_recv, "py_send": s.py_send,
        "py_short_send": s.py_short_send, "bytes_c2s": s.bytes_c2s, "bytes_s2c": s.bytes_s2c,
        "stalls": s.stalls, "both_waiting": s.both_waiting,
    })
}

fn append(out: &str, v: &Value) {
    use std::fs::OpenOptions;
    let mut f = OpenOptions::new().create(true).append(true).open(out).expect("cannot open --out");
    let _ = writeln!(f, "{v}");
}

fn e2e(args: &Args) {
    let script: Value = serde_json::from_str(
        &std::fs::read_to_string(args.get("script").expect("--script")).expect("cannot read --script"),
    )
    .expect("bad script");
    let out = args.get("out").expect("--out").to_string();
    let _ = std::fs::remove_file(&out);
    let python = args.get("python").unwrap_or("python3").to_string();
    let node = args.get("node").expect("--node (py/repl_node.py)").to_string();
    let server_py = args.get("server-py").unwrap_or("/repo/src/scripts/repl_server.py").to_string();
    let seed = script["seed"].as_u64().unwrap_or(1);
    let stderr_file = std::fs::File::create(format!("{out}.pyerr")).expect("pyerr");
    let mut child = Command::new(&python)
        .arg(&node)
        .arg(&server_py)
        .arg("o")
        .env("PYTHONHASHSEED", script["pythonhashseed"].as_u64().unwrap_or(0).to_string())
        .stdin(Stdio::piped())
        .stdout(Stdio::piped())
        .stderr(Stdio::from(stderr_file))
        .spawn()
        .expect("cannot start the python node");
    let to_py = child.stdin.take().unwrap();
    let from_py = child.stdout.take().unwrap();
    let link = Arc::new(Mutex::new(Link {
        _child: child,
        to_py,
        from_py,
        c2s: VecDeque::new(),
        s2c: VecDeque::new(),
        py: Py::NeedRequest,
        rng: SplitMix::derive(seed, "C25/io", 0),
        split: script["faults"]["split"].as_bool().unwrap_or(false),
        eintr: script["faults"]["eintr"].as_bool().unwrap_or(false),
        stall_at: script["faults"]["stall_at"].as_u64(),
        replies_started: 0,
        stats: IoStats::default(),
    }));
    let _ = erg_common::env::PYTHON_PATH.set(Ok(python));
    let _ = erg_common::env::PYTHON_SYS_PATH.set(vec![]);
    let _ = erg_common::env::PYTHON_SITE_PACKAGES.set(vec![]);
    let magic_hex = args.get("magic").unwrap_or("a70d");
    let b0 = u8::from_str_radix(&magic_hex[0..2], 16).expect("--magic");
    let b1 = u8::from_str_radix(&magic_hex[2..4], 16).expect("--magic");
    let cfg = ErgConfig {
        quiet_repl: true,
        py_magic_num: Some(erg_common::serialize::get_magic_num_from_bytes(&[b0, b1, 0, 0])),
        target_version: Some(args.get("pyver").unwrap_or("3.11.0").parse().unwrap()),
        ..ErgConfig::default()
    };
    let mut vm = DummyVM::with_stream(cfg, Box::new(SimSock(link.clone())));
    let inputs = script["inputs"].as_array().cloned().unwrap_or_default();
    for (i, inp) in inputs.iter().enumerate() {
        link.lock().unwrap().replies_started = i as u64;
        let src = inp.as_str().unwrap_or("").to_string();
        let r = std::panic::catch_unwind(std::panic::AssertUnwindSafe(|| Runnable::eval(&mut vm, src)));
        let st = stats_json(&link.lock().unwrap().stats);
        match r {
            Ok(Ok(s)) => append(&out, &json!({"i": i, "ok": true, "result": s, "io": st})),
            Ok(Err(errs)) => {
                let msgs: Vec<String> = errs.iter().map(|e| e.core.main_message.clone()).collect();
                append(&out, &json!({"i": i, "ok": false, "errors": msgs, "io": st}));
            }
            Err(_) => append(&out, &json!({"i": i, "panic": true, "io": st})),
        }
    }
    let st = stats_json(&link.lock().unwrap().stats);
    append(&out, &json!({"done": true, "io": st}));
    // DummyVM::drop sends Exit and waits for the server's Exit
    drop(vm);
    append(&out, &json!({"finished": true}));
    std::process::exit(0);
}

// ---------------------------------------------------------------------------------------
// layer 1: the Rust codec against a reference codec
// ---------------------------------------------------------------------------------------

/// reference encoding of a payload of fewer than 65535 bytes (pinned by dummy::test_message):
/// inst, big-endian u16 length, data
fn ref_encode(inst: u8, data: &[u8]) -> Vec<u8> {
    let mut out = vec![inst];
    out.extend((data.len() as u16).to_be_bytes());
    out.extend(data);
    out
}

/// a stream that hands out / accepts bytes in chunks given by `cuts` (then whole)
struct Chunked {
    data: VecDeque<u8>,
    written: Vec<u8>,
    cuts: VecDeque<usize>,
    eintr_every: u64,
    n: u64,
}

impl Chunked {
    fn next_len(&mut self, want: usize) -> usize {
        match self.cuts.pop_front() {
            Some(c) => c.clamp(1, want),
            None => want,
        }
    }
}

impl Read for Chunked {
    fn read(&mut self, buf: &mut [u8]) -> std::io::Result<usize> {
        self.n += 1;
        if self.eintr_every > 0 && self.n % self.eintr_every == 0 {
            return Err(std::io::Error::new(std::io::ErrorKind::Interrupted, "EINTR"));
        }
        if buf.is_empty() || self.data.is_empty() {
            return Ok(0);
        }
        let want = buf.len().min(self.data.len());
        let k = self.next_len(want);
        for b in buf.iter_mut().take(k) {
            *b = self.data.pop_front().unwrap();
        }
        Ok(k)
    }
}

impl Write for Chunked {
    fn write(&mut self, buf: &[u8]) -> std::io::Result<usize> {
        self.n += 1;
        if self.eintr_every > 0 && self.n % self.eintr_every == 0 {
            return Err(std::io::Error::new(std::io::ErrorKind::Interrupted, "EINTR"));
        }
        if buf.is_empty() {
            return Ok(0);
        }
        let k = self.next_len(buf.len());
        self.written.extend(&buf[..k]);
        Ok(k)
    }
    fn flush(&mut self) -> std::io::Result<()> {
        Ok(())
    }
}

fn codec_case(inst: u8, data: &[u8], cuts: &[usize], eintr_every: u64) -> Option<Value> {
    // encode: whatever the writer accepts per call ...
    let mut wr = Chunked { data: VecDeque::new(), written: vec![], cuts: cuts.iter().copied().collect(), eintr_every, n: 0 };
    let r = std::panic::catch_unwind(std::panic::AssertUnwindSafe(|| {
        erg::dummy_verif::send_frame(&mut wr, inst, if data.is_empty() { None } else { Some(data.to_vec()) })
    }));
    match r {
        Ok(Ok(())) => {}
        Ok(Err(e)) => return Some(json!({"clause": "encode_error", "inst": inst, "len": data.len(), "error": e.to_string()})),
        Err(_) => return Some(json!({"clause": "encode_panic", "inst": inst, "len": data.len()})),
    }
    let wire = wr.written;
    // ... up to 65534 bytes the wire format is pinned: inst, big-endian u16 length, data
    if data.len() < 65535 && wire != ref_encode(inst, data) {
        return Some(json!({"clause": "encode", "inst": inst, "len": data.len(), "cuts": cuts, "wrote": wire.len()}));
    }
    // decode: those bytes, cut as prescribed, must come out as sent, with nothing left over
    let rcuts: Vec<usize> = cuts.iter().rev().copied().collect();
    let mut rd = Chunked { data: wire.iter().copied().collect(), written: vec![], cuts: rcuts.into(), eintr_every, n: 0 };
    let got = std::panic::catch_unwind(std::panic::AssertUnwindSafe(|| erg::dummy_verif::recv_frame(&mut rd)));
    match got {
        Ok(Ok((i, d))) => {
            let d = d.unwrap_or_default();
            if i != inst || d != data || !rd.data.is_empty() {
                return Some(json!({"clause": "decode", "inst": inst, "len": data.len(), "cuts": cuts,
                    "got_inst": i, "got_len": d.len(), "left_over": rd.data.len()}));
            }
        }
        Ok(Err(e)) => return Some(json!({"clause": "decode_error", "inst": inst, "len": data.len(), "cuts": cuts, "error": e.to_string()})),
        Err(_) => return Some(json!({"clause": "decode_panic", "inst": inst, "len": data.len(), "cuts": cuts})),
    }
    None
}

fn codec(args: &Args) {
    let seed = args.u64("seed", 1);
    let count = args.u64("count", 2000);
    let mut violations: Vec<Value> = vec![];
    let mut evaluations = 0u64;
    let mut distinct = std::collections::HashSet::new();
    let mut samples: Vec<Value> = vec![];
    // exhaustive: every cut pattern of every frame of at most 12 bytes on the wire (data <= 9)
    let mut exhaustive = 0u64;
    for len in 0..=9usize {
        let data: Vec<u8> = (0..len).map(|i| b'a' + i as u8).collect();
        let total = len + 3;
        for mask in 0..(1u32 << (total - 1)) {
            // mask bit i set = a cut after byte i
            let mut cuts = vec![];
            let mut run = 1;
            for i in 0..total - 1 {
                if mask & (1 << i) != 0 {
                    cuts.push(run);
                    run = 1;
                } else {
                    run += 1;
                }
            }
            cuts.push(run);
            evaluations += 1;
            exhaustive += 1;
            distinct.insert((len as u64, mask as u64, 0u64));
            if let Some(v) = codec_case(0x01, &data, &cuts, 0) {
                if violations.len() < 20 {
                    violations.push(v);
                }
            }
        }
    }
    // seeded: long frames, sizes around the 16-bit boundary, random cuts, EINTR
    let sizes = [0usize, 1, 2, 255, 256, 1000, 65534, 65535, 65536, 65537, 131070, 131071, 200_000];
    for i in 0..count {
        let mut r = SplitMix::derive(seed, "C25/codec", i);
        let len = if r.chance(0.6) { *r.pick(&sizes) } else { r.below(210_000) as usize };
        let inst = *r.pick(&[0x01u8, 0x02, 0x03, 0x04, 0x05, 0x06]);
        let data: Vec<u8> = (0..len).map(|k| (r.0.wrapping_add(k as u64) % 251) as u8).collect();
        let ncuts = r.below(40) as usize;
        let cuts: Vec<usize> = (0..ncuts).map(|_| if r.chance(0.5) { 1 + r.below(4) as usize } else { 1 + r.below(70_000) as usize }).collect();
        let eintr_every = if r.chance(0.3) { 2 + r.below(5) } else { 0 };
        evaluations += 1;
        distinct.insert((len as u64, r.next(), 1));
        if samples.len() < 3 {
            samples.push(json!({"inst": inst, "len": len, "cuts": cuts.iter().take(8).collect::<Vec<_>>(), "eintr_every": eintr_every}));
        }
        if let Some(v) = codec_case(inst, &data, &cuts, eintr_every) {
            if violations.len() < 20 {
                violations.push(v);
            }
        }
    }
    println!(
        "{}",
        json!({"harness": "simrepl", "mode": "codec", "class": "done", "evaluations": evaluations,
               "distinct_nontrivial": distinct.len(), "exhaustive_short_frames": exhaustive,
               "violations": violations, "samples": samples})
    );
}

fn main() {
    let args = Args::parse();
    if let Some(core) = args.get("pin") {
        simrt::pin_to_core(core.parse().expect("--pin"));
    }
    match args.get("mode").unwrap_or("e2e") {
        "e2e" => e2e(&args),
        "codec" => codec(&args),
        other => {
            eprintln!("unknown --mode {other}");
            std::process::exit(2);
        }
    }
}
