//! simpyc — C15: what `File::create` + `write_all` without fsync can leave behind after a crash,
//! a full disk or bit rot, fed to the compiler's own .pyc reader (`CodeObj::from_pyc`, i.e.
//! `erg --mode read`).
//!
//!   --mode gen  --seed S --count N --outdir D     seeded CodeObj trees -> D/t<i>.pyc + D/t<i>.json
//!                                                 (the constants the harness put in, for CPython)
//!   --mode read --image F --tier quick|thorough --seed S [--from I --to J] [--tmp DIR]
//!                                                 enumerate stored-image faults of F in a fixed
//!                                                 order, read each damaged image back; one JSON line

use std::panic::{catch_unwind, AssertUnwindSafe};
use std::sync::Mutex;

use erg_common::python_util::PythonVersion;
use erg_common::Str;
use erg_compiler::ty::codeobj::CodeObj;
use erg_compiler::ty::ValueObj;

use simrt::cli::Args;
use simrt::serde_json::{json, Value};
use simrt::SplitMix;

static LAST_PANIC: Mutex<String> = Mutex::new(String::new());

// ---------------------------------------------------------------------------------------
// generation of code-object trees through the public API
// ---------------------------------------------------------------------------------------

fn gen_str(r: &mut SplitMix) -> String {
    let len = match r.below(10) {
        0 => 0,
        1..=5 => r.range(1, 12) as usize,
        6 => r.range(13, 300) as usize,
        // the one-byte length of the short tags ends at 255: exact lengths around it
        7 | 8 => *r.pick(&[254usize, 255, 256, 257]),
        _ => r.range(250, 260) as usize,
    };
    let alphabet: &[&str] = match r.below(4) {
        0 | 1 => &["a", "b", "Z", "0", "_", " "],
        2 => &["a", "é", "日", "ß", "x"],
        _ => &["a", "\u{1F600}", "日", "\u{10FFFF}", "z"],
    };
    let mut s = String::new();
    while s.chars().count() < len {
        let piece: &str = *r.pick(alphabet);
        s.push_str(piece);
    }
    s
}

fn gen_const(r: &mut SplitMix, depth: u32, want_big_nat: bool) -> (ValueObj, Value) {
    match r.below(if depth >= 3 { 9 } else { 12 }) {
        0 => {
            let v = *r.pick(&[0i32, 1, -1, 255, 256, 65535, 65536, i32::MAX, i32::MIN, -123456]);
            (ValueObj::Int(v), json!({"t": "int", "v": v.to_string()}))
        }
        1 => {
            let v = (r.next() >> 33) as i32 - (1 << 30);
            (ValueObj::Int(v), json!({"t": "int", "v": v.to_string()}))
        }
        2 => {
            // every bit length 1..=64 (beyond 31 bits only when asked for), at its edges and inside
            let max_bits = if want_big_nat { 64 } else { 31 };
            let bits = r.range(1, max_bits);
            let lo: u64 = 1u64 << (bits - 1);
            let hi: u64 = if bits == 64 { u64::MAX } else { (1u64 << bits) - 1 };
            let v = match r.below(4) {
                0 => lo,
                1 => hi,
                2 => lo + r.below(hi - lo + 1),
                _ => *r.pick(&[0u64, 1, 255, 65536, 12345678]),
            };
            (ValueObj::Nat(v), json!({"t": "int", "v": v.to_string()}))
        }
        3 => {
            let v = *r.pick(&[0.0f64, -0.0, 1.5, -2.25, f64::INFINITY, f64::NEG_INFINITY, f64::NAN, 1e308, 5e-324]);
            (ValueObj::from(v), json!({"t": "float", "bits": format!("{:016x}", v.to_bits())}))
        }
        4 | 5 => {
            let s = gen_str(r);
            (ValueObj::Str(Str::from(s.clone())), json!({"t": "str", "v": s}))
        }
        6 => {
            let b = r.chance(0.5);
            (ValueObj::Bool(b), json!({"t": "bool", "v": b}))
        }
        7 | 8 => (ValueObj::None, json!({"t": "none"})),
        9 | 10 => {
            let n = if r.chance(0.05) { r.range(256, 300) } else { r.range(0, 5) } as usize;
            let mut vs = vec![];
            let mut js = vec![];
            for _ in 0..n {
                let (v, j) = gen_const(r, depth + 1, want_big_nat);
                vs.push(v);
                js.push(j);
            }
            (ValueObj::Tuple(vs.into()), json!({"t": "tuple", "v": js}))
        }
        _ => {
            let (c, j) = gen_code(r, depth + 1, want_big_nat);
            (ValueObj::from(c), j)
        }
    }
}

/// identifiers: mostly short ASCII; sometimes non-ASCII, sometimes longer than 255 bytes
fn gen_ident(r: &mut SplitMix, prefix: &str, i: u64) -> Str {
    match r.below(12) {
        0 => Str::from(format!("{prefix}{i}_変数{}", r.below(100))),
        1 => Str::from(format!("{prefix}{i}_é{}", r.below(100))),
        2 => Str::from(format!("{prefix}{i}_{}", "long_".repeat(r.range(50, 60) as usize))),
        3 => {
            // identifiers of exactly 254..=257 bytes (interned short/long tag boundary)
            let head = format!("{prefix}{i}_");
            let want = *r.pick(&[254usize, 255, 256, 257]);
            Str::from(format!("{head}{}", "n".repeat(want - head.len())))
        }
        _ => Str::from(format!("{prefix}{i}_{}", r.below(100))),
    }
}

fn gen_names(r: &mut SplitMix, lo: u64, hi: u64, prefix: &str) -> Vec<Str> {
    let n = r.range(lo, hi);
    (0..n).map(|i| gen_ident(r, prefix, i)).collect()
}

fn gen_code(r: &mut SplitMix, depth: u32, want_big_nat: bool) -> (CodeObj, Value) {
    let nconst = r.range(0, 6);
    let mut consts = vec![];
    let mut js = vec![];
    for _ in 0..nconst {
        let (v, j) = gen_const(r, depth, want_big_nat);
        consts.push(v);
        js.push(j);
    }
    let varnames = gen_names(r, 0, 3, "v");
    let closure = r.chance(0.3);
    let freevars = if closure { gen_names(r, 0, 2, "f") } else { vec![] };
    let cellvars = if closure { gen_names(r, 0, 2, "c") } else { vec![] };
    let code: Vec<u8> = (0..r.range(0, 40) * 2).map(|_| r.below(256) as u8).collect();
    let name = gen_ident(r, "fn", 0);
    let c = CodeObj {
        argcount: 0,
        posonlyargcount: 0,
        kwonlyargcount: 0,
        nlocals: varnames.len() as u32,
        stacksize: r.range(1, 9) as u32,
        flags: *r.pick(&[0u32, 0x40, 0x3, 0x13]),
        code,
        consts,
        names: gen_names(r, 0, 4, "n"),
        varnames,
        freevars,
        cellvars,
        filename: Str::from(if r.chance(0.2) { "ファイル.er" } else { "main.er" }),
        name: name.clone(),
        qualname: name.clone(),
        firstlineno: r.range(1, 500) as u32,
        lnotab: (0..r.range(0, 8)).map(|_| r.below(256) as u8).collect(),
        exceptiontable: (0..r.range(0, 4)).map(|_| r.below(256) as u8).collect(),
    };
    let has_closure = !c.freevars.is_empty() || !c.cellvars.is_empty();
    (c, json!({"t": "code", "name": name.to_string(), "consts": js, "closure": has_closure}))
}

fn magic(args: &Args) -> u32 {
    let magic_hex = args.get("magic").unwrap_or("a70d");
    let b0 = u8::from_str_radix(&magic_hex[0..2], 16).expect("--magic");
    let b1 = u8::from_str_radix(&magic_hex[2..4], 16).expect("--magic");
    erg_common::serialize::get_magic_num_from_bytes(&[b0, b1, 0, 0])
}

fn gen(args: &Args) {
    let seed = args.u64("seed", 1);
    let count = args.u64("count", 10);
    let outdir = args.get("outdir").expect("--outdir");
    let big = args.has("big-nat");
    let mut made = vec![];
    for i in 0..count {
        // images stay small (<= 8 KiB) so that every truncation offset and every bit can be tried
        let mut attempt = 0;
        let (bytes, j) = loop {
            let mut r = SplitMix::derive(seed, "C15/tree", i * 64 + attempt);
            let (c, j) = gen_code(&mut r, 0, big);
            let bytes = c.into_bytecode(Some(magic(args)));
            if bytes.len() <= 8192 || attempt >= 40 {
                break (bytes, j);
            }
            attempt += 1;
        };
        let p = format!("{outdir}/t{i}.pyc");
        std::fs::write(&p, &bytes).expect("write image");
        std::fs::write(format!("{outdir}/t{i}.json"), j.to_string()).expect("write expectation");
        made.push(json!({"image": p, "bytes": bytes.len()}));
    }
    println!("{}", json!({"harness": "simpyc", "mode": "gen", "class": "done", "images": made}));
}

// ---------------------------------------------------------------------------------------
// stored-image faults, enumerated in a fixed order
// ---------------------------------------------------------------------------------------

#[derive(Debug, Clone)]
enum Fault {
    None,
    /// the write stopped here (crash, full disk)
    Trunc(usize),
    /// a sector never reached the disk and reads back as zeros
    Zero(usize, usize),
    /// a sector is missing altogether (later data moved up)
    Cut(usize, usize),
    Flip(usize),
    Byte(usize, u8),
    /// a 4-byte field replaced by a boundary value
    U32(usize, u32),
    Multi(Vec<Fault>),
}

impl Fault {
    fn apply(&self, img: &[u8]) -> Vec<u8> {
        let mut v = img.to_vec();
        match self {
            Fault::None => {}
            Fault::Trunc(n) => v.truncate(*n),
            Fault::Zero(a, l) => {
                let end = (*a + *l).min(v.len());
                for b in v.iter_mut().take(end).skip(*a) {
                    *b = 0;
                }
            }
            Fault::Cut(a, l) => {
                let end = (*a + *l).min(v.len());
                if *a < end {
                    v.drain(*a..end);
                }
            }
            Fault::Flip(bit) => {
                if bit / 8 < v.len() {
                    v[bit / 8] ^= 1 << (bit % 8);
                }
            }
            Fault::Byte(a, x) => {
                if *a < v.len() {
                    v[*a] = *x;
                }
            }
            Fault::U32(a, x) => {
                if *a + 4 <= v.len() {
                    v[*a..*a + 4].copy_from_slice(&x.to_le_bytes());
                }
            }
            Fault::Multi(fs) => {
                for f in fs {
                    v = f.apply(&v);
                }
            }
        }
        v
    }
    fn kind(&self) -> &'static str {
        match self {
            Fault::None => "none",
            Fault::Trunc(_) => "truncation",
            Fault::Zero(..) => "zeroed_sector",
            Fault::Cut(..) => "missing_sector",
            Fault::Flip(_) => "bit_flip",
            Fault::Byte(..) => "byte_replaced",
            Fault::U32(..) => "length_field_boundary",
            Fault::Multi(_) => "multi",
        }
    }
    fn to_json(&self) -> Value {
        match self {
            Fault::None => json!({"k": "none"}),
            Fault::Trunc(n) => json!({"k": "trunc", "at": n}),
            Fault::Zero(a, l) => json!({"k": "zero", "at": a, "len": l}),
            Fault::Cut(a, l) => json!({"k": "cut", "at": a, "len": l}),
            Fault::Flip(b) => json!({"k": "flip", "bit": b}),
            Fault::Byte(a, x) => json!({"k": "byte", "at": a, "v": x}),
            Fault::U32(a, x) => json!({"k": "u32", "at": a, "v": x}),
            Fault::Multi(fs) => json!({"k": "multi", "list": fs.iter().map(|f| f.to_json()).collect::<Vec<_>>()}),
        }
    }
    fn from_json(v: &Value) -> Fault {
        let n = |k: &str| v[k].as_u64().unwrap_or(0) as usize;
        match v["k"].as_str().unwrap_or("none") {
            "trunc" => Fault::Trunc(n("at")),
            "zero" => Fault::Zero(n("at"), n("len")),
            "cut" => Fault::Cut(n("at"), n("len")),
            "flip" => Fault::Flip(n("bit")),
            "byte" => Fault::Byte(n("at"), n("v") as u8),
            "u32" => Fault::U32(n("at"), n("v") as u32),
            "multi" => Fault::Multi(v["list"].as_array().map(|a| a.iter().map(Fault::from_json).collect()).unwrap_or_default()),
            _ => Fault::None,
        }
    }
}

fn enumerate(img: &[u8], tier: &str, seed: u64) -> Vec<Fault> {
    let n = img.len();
    let thorough = tier == "thorough";
    let mut out = vec![Fault::None];
    let mut r = SplitMix::derive(seed, "C15/faults", n as u64);
    // every truncation offset (images above 16 KiB: the first 4 KiB, the last 1 KiB and a sample)
    if n <= 16384 {
        for k in 0..n {
            out.push(Fault::Trunc(k));
        }
    } else {
        for k in (0..4096).chain(n - 1024..n) {
            out.push(Fault::Trunc(k));
        }
        for _ in 0..4000 {
            out.push(Fault::Trunc(r.below(n as u64) as usize));
        }
    }
    // sector-granular holes; small images get small "sectors" too so that holes fall inside them
    for &s in &[512usize, 4096, 64, 16] {
        let mut a = 0;
        let stride = if n / s > 2000 { (n / s / 2000 + 1) * s } else { s };
        while a < n {
            out.push(Fault::Zero(a, s));
            out.push(Fault::Cut(a, s));
            a += stride;
        }
    }
    // single bit flips: all of them for small images, a sample otherwise
    let all_bits = n * 8;
    let budget = if thorough { 200_000 } else { 16_384 };
    if all_bits <= budget {
        for b in 0..all_bits {
            out.push(Fault::Flip(b));
        }
    } else {
        for _ in 0..budget {
            out.push(Fault::Flip(r.below(all_bits as u64) as usize));
        }
    }
    // one byte replaced
    for _ in 0..(if thorough { 20_000 } else { 2_000 }) {
        out.push(Fault::Byte(r.below(n as u64) as usize, r.below(256) as u8));
    }
    // a length field replaced by a boundary value
    let bounds = [0xFFFF_FFFFu32, 0x7FFF_FFFF, 0x8000_0000, 0x0001_0000, 0x0100_0000, 0xFFFF, 0x100];
    let step = (if thorough { 1 } else { 3 }) * (n / 16384 + 1);
    let mut a = 16;
    while a + 4 <= n {
        for &b in &bounds {
            out.push(Fault::U32(a, b));
        }
        a += step;
    }
    // seeded combinations: a flip or two and then the write stops
    for _ in 0..(if thorough { 20_000 } else { 2_000 }) {
        let mut fs = vec![];
        for _ in 0..r.range(1, 3) {
            fs.push(match r.below(3) {
                0 => Fault::Flip(r.below(all_bits as u64) as usize),
                1 => Fault::Byte(r.below(n as u64) as usize, r.below(256) as u8),
                _ => Fault::Zero(r.below(n as u64) as usize & !15, 16),
            });
        }
        if r.chance(0.5) {
            fs.push(Fault::Trunc(r.below(n as u64) as usize));
        }
        out.push(Fault::Multi(fs));
    }
    out
}

fn read_back(path: &str) -> Result<Result<(CodeObj, PythonVersion), String>, String> {
    match catch_unwind(AssertUnwindSafe(|| CodeObj::from_pyc(path))) {
        Ok(Ok(x)) => Ok(Ok(x)),
        Ok(Err(e)) => Ok(Err(e.desc)),
        Err(_) => Err(LAST_PANIC.lock().unwrap().clone()),
    }
}

fn read(args: &Args) {
    std::panic::set_hook(Box::new(|info| {
        let loc = info.location().map(|l| format!("{}:{}", l.file(), l.line())).unwrap_or_default();
        let msg = if let Some(s) = info.payload().downcast_ref::<&str>() {
            s.to_string()
        } else if let Some(s) = info.payload().downcast_ref::<String>() {
            s.clone()
        } else {
            String::new()
        };
        *LAST_PANIC.lock().unwrap() = format!("{loc}: {}", msg.chars().take(80).collect::<String>());
    }));
    let image = args.get("image").expect("--image");
    let img = std::fs::read(image).expect("cannot read --image");
    let tier = args.get("tier").unwrap_or("quick");
    let seed = args.u64("seed", 1);
    let faults: Vec<Fault> = if let Some(f) = args.get("fault") {
        vec![Fault::from_json(&simrt::serde_json::from_str(f).expect("--fault json"))]
    } else {
        enumerate(&img, tier, seed)
    };
    let from = args.u64("from", 0) as usize;
    let to = (args.u64("to", faults.len() as u64) as usize).min(faults.len());
    let tmpdir = args.get("tmp").unwrap_or("/dev/shm");
    let tmp = format!("{tmpdir}/simpyc_{}.pyc", std::process::id());
    let progress = args.get("progress").map(|s| s.to_string());
    let mut by_kind = std::collections::BTreeMap::<&'static str, u64>::new();
    let mut outcomes = std::collections::BTreeMap::<&'static str, u64>::new();
    let mut violations: Vec<Value> = vec![];
    let mut nviol = 0u64;
    let mut changed = 0u64;
    let mut distinct = std::collections::HashSet::new();
    for (i, f) in faults.iter().enumerate().take(to).skip(from) {
        if let Some(p) = &progress {
            if i % 256 == 0 {
                let _ = std::fs::write(p, i.to_string());
            }
        }
        let damaged = f.apply(&img);
        *by_kind.entry(f.kind()).or_insert(0) += 1;
        let is_complete = damaged == img;
        if !is_complete {
            changed += 1;
        }
        let mut h = 0xcbf29ce484222325u64;
        for b in &damaged {
            h = (h ^ *b as u64).wrapping_mul(0x100000001b3);
        }
        distinct.insert((h, damaged.len()));
        std::fs::write(&tmp, &damaged).expect("cannot write temp image");
        match read_back(&tmp) {
            Ok(Ok((code, ver))) => {
                *outcomes.entry("ok").or_insert(0) += 1;
                if is_complete {
                    // a complete image reads back and re-serialises to the same bytes
                    let again = code.into_bytes(ver);
                    if again != img[16..] {
                        nviol += 1;
                        if violations.len() < 10 {
                            violations.push(json!({"clause": "reserialise", "index": i, "fault": f.to_json()}));
                        }
                    }
                }
            }
            Ok(Err(desc)) => {
                *outcomes.entry("broken_file_reported").or_insert(0) += 1;
                if is_complete {
                    nviol += 1;
                    if violations.len() < 10 {
                        violations.push(json!({"clause": "complete_image_rejected", "index": i, "fault": f.to_json(), "desc": desc}));
                    }
                }
            }
            Err(site) => {
                *outcomes.entry("panic").or_insert(0) += 1;
                nviol += 1;
                if violations.len() < 10 || !violations.iter().any(|v| v["site"] == site.as_str()) && violations.len() < 40 {
                    violations.push(json!({"clause": if is_complete { "complete_image_panic" } else { "panic" },
                        "index": i, "fault": f.to_json(), "site": site, "kind": f.kind()}));
                }
            }
        }
    }
    let _ = std::fs::remove_file(&tmp);
    println!(
        "{}",
        json!({"harness": "simpyc", "mode": "read", "class": "done", "image": image, "bytes": img.len(),
               "evaluations": to.saturating_sub(from), "total_faults": faults.len(), "changed": changed,
               "distinct": distinct.len(), "faults_by_kind": by_kind, "outcomes": outcomes,
               "violations_total": nviol, "violations": violations})
    );
}

fn main() {
    let args = Args::parse();
    match args.get("mode").unwrap_or("read") {
        "gen" => gen(&args),
        "read" => read(&args),
        other => {
            eprintln!("unknown --mode {other}");
            std::process::exit(2);
        }
    }
}
