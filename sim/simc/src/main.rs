//! simc — compiles `main.er` of a project directory with the real erg package builder under
//! the simulator and prints one JSON line: success, bytecode (hex of bytes 16..), every
//! diagnostic, runtime statistics. Built twice: `simc` (parallel analysis) and `seqc`
//! (erg_common feature `verif_seq`, i.e. PARALLEL = false).
//!
//! usage: simc --dir PROJECT [--pyc OUT.pyc] [--pin CORE] [--out FILE] <runtime options, see simrt::cli>

use std::panic::{catch_unwind, AssertUnwindSafe};

use erg_common::config::{ErgConfig, ErgMode};
use erg_common::error::Location;
use erg_common::io::Input;
use erg_compiler::error::CompileError;
use erg_compiler::Compiler;

use simrt::cli::{knobs_json, runtime_config, Args};
use simrt::serde_json::{json, Value};
use simrt::Runtime;

fn loc_json(loc: &Location) -> Value {
    match loc {
        Location::Range {
            ln_begin,
            col_begin,
            ln_end,
            col_end,
        } => json!([ln_begin, col_begin, ln_end, col_end]),
        Location::LineRange(a, b) => json!([a, -1, b, -1]),
        Location::Line(a) => json!([a, -1, a, -1]),
        Location::Unknown => json!([]),
    }
}

fn diag_json(sev: &str, e: &CompileError) -> Value {
    let subs: Vec<Value> = e
        .core
        .sub_messages
        .iter()
        .map(|s| json!({"loc": loc_json(&s.loc), "msg": s.msg, "hint": s.hint}))
        .collect();
    json!({
        "sev": sev,
        "errno": e.core.errno,
        "kind": format!("{:?}", e.core.kind),
        "file": e.input.path().to_string_lossy(),
        "loc": loc_json(&e.core.loc),
        "msg": e.core.main_message,
        "caused_by": e.caused_by,
        "subs": subs,
    })
}

fn hex(bytes: &[u8]) -> String {
    let mut s = String::with_capacity(bytes.len() * 2);
    for b in bytes {
        s.push_str(&format!("{b:02x}"));
    }
    s
}

fn emit(out: Option<&str>, v: &Value) {
    let line = format!("{v}\n");
    match out {
        Some(p) => std::fs::write(p, line).expect("cannot write --out"),
        None => {
            use std::io::Write;
            let so = std::io::stdout();
            let mut so = so.lock();
            let _ = so.write_all(line.as_bytes());
            let _ = so.flush();
        }
    }
}

fn main() {
    let args = Args::parse();
    if let Some(core) = args.get("pin") {
        simrt::pin_to_core(core.parse().expect("--pin"));
    }
    let mut dir = args.get("dir").expect("--dir").to_string();
    if let Some(fixed) = args.get("mount-at") {
        dir = simrt::mount_at(&dir, fixed);
    }
    std::env::set_current_dir(&dir).expect("cannot chdir to --dir");
    let out = args.get("out").map(|s| s.to_string());
    let entry = args.get("entry").unwrap_or("main.er").to_string();
    let rcfg = runtime_config(&args, 3000);
    let knobs = knobs_json(&rcfg);
    let seed = rcfg.seed;
    if args.has("no-sim") {
        // fidelity check: the same harness on real, unscheduled threads
        let magic_hex = args.get("magic").unwrap_or("a70d");
        let b0 = u8::from_str_radix(&magic_hex[0..2], 16).expect("--magic");
        let b1 = u8::from_str_radix(&magic_hex[2..4], 16).expect("--magic");
        let cfg = ErgConfig {
            input: Input::file(entry.clone().into()),
            mode: ErgMode::Compile,
            py_magic_num: Some(erg_common::serialize::get_magic_num_from_bytes(&[b0, b1, 0, 0])),
            target_version: Some(args.get("pyver").unwrap_or("3.11.0").parse().unwrap()),
            ..ErgConfig::default()
        };
        let _ = erg_common::env::PYTHON_PATH.set(Ok(args.get("python").unwrap_or("python3").to_string()));
        let _ = erg_common::env::PYTHON_SYS_PATH.set(vec![]);
        let _ = erg_common::env::PYTHON_SITE_PACKAGES.set(vec![]);
        let mut compiler = Compiler::new(cfg);
        let src = std::fs::read_to_string(&entry).expect("cannot read entry module");
        let res = compiler.compile(src, "exec");
        let (ok, n) = match &res {
            Ok(a) => (true, a.warns.len()),
            Err(e) => (false, e.errors.len()),
        };
        println!("{}", json!({"harness": "simc", "class": "done", "no_sim": true, "ok": ok, "n": n}));
        std::process::exit(0);
    }
    let rt = Runtime::install(rcfg);
    simrt::install_panic_hook(rt, args.has("verbose"));
    simrt::install_crash_reporter();
    {
        let out = out.clone();
        let knobs = knobs.clone();
        rt.set_abort_hook(Box::new(move |why| {
            let v = json!({
                "harness": "simc", "seed": seed, "class": why, "knobs": knobs,
                "parallel": erg_common::consts::PARALLEL,
            });
            emit(out.as_deref(), &v);
        }));
    }
    // environment detection (spawning `python3`, `poetry`, ...) is pinned: the orchestrator
    // detects the interpreter once and passes it in
    let python = args.get("python").unwrap_or("python3").to_string();
    let magic_hex = args.get("magic").unwrap_or("a70d");
    let b0 = u8::from_str_radix(&magic_hex[0..2], 16).expect("--magic");
    let b1 = u8::from_str_radix(&magic_hex[2..4], 16).expect("--magic");
    let magic_num = erg_common::serialize::get_magic_num_from_bytes(&[b0, b1, 0, 0]);
    let pyver: erg_common::python_util::PythonVersion =
        args.get("pyver").unwrap_or("3.11.0").parse().unwrap();
    let _ = erg_common::env::PYTHON_PATH.set(Ok(python));
    let _ = erg_common::env::PYTHON_SYS_PATH.set(vec![]);
    let _ = erg_common::env::PYTHON_SITE_PACKAGES.set(vec![]);
    let cfg = ErgConfig {
        input: Input::file(entry.clone().into()),
        mode: ErgMode::Compile,
        py_magic_num: Some(magic_num),
        target_version: Some(pyver),
        ..ErgConfig::default()
    };
    let magic = cfg.py_magic_num;
    let res = catch_unwind(AssertUnwindSafe(|| {
        let mut compiler = Compiler::new(cfg);
        let src = std::fs::read_to_string(&entry).expect("cannot read entry module");
        compiler.compile(src, "exec")
    }));
    let mut diags: Vec<Value> = vec![];
    let mut ok = false;
    let mut code_hex = String::new();
    let mut main_panic = false;
    match res {
        Ok(Ok(arti)) => {
            ok = true;
            for w in arti.warns.iter() {
                diags.push(diag_json("warning", w));
            }
            let bytes = arti.object.into_bytecode(magic);
            if let Some(p) = args.get("pyc") {
                std::fs::write(p, &bytes).expect("cannot write --pyc");
            }
            code_hex = hex(&bytes[16..]);
        }
        Ok(Err(eart)) => {
            for e in eart.errors.iter() {
                diags.push(diag_json("error", e));
            }
            for w in eart.warns.iter() {
                diags.push(diag_json("warning", w));
            }
        }
        Err(_) => {
            main_panic = true;
        }
    }
    let stats = rt.stats_json();
    let probes: Vec<Value> = rt
        .probe_log()
        .into_iter()
        .map(|(n, d)| json!([n, d]))
        .collect();
    let devs: Vec<Value> = rt.deviations().iter().map(|d| d.to_json()).collect();
    let class = if main_panic || !stats["panics"].as_array().unwrap().is_empty() {
        "panic"
    } else {
        "done"
    };
    let v = json!({
        "harness": "simc", "seed": seed, "class": class, "ok": ok, "code": code_hex,
        "diags": diags, "stats": stats, "probe_log": probes, "deviations": devs, "knobs": knobs,
        "parallel": erg_common::consts::PARALLEL,
        "live_threads": rt.live_threads(), "dir": dir,
    });
    emit(out.as_deref(), &v);
    // lingering sim threads are parked; leave without running destructors
    std::process::exit(0);
}
