//! simgraph — C21: the module dependency graph against a reference graph.
//!
//! * `single` histories (<= 40 operations over 6 paths, one caller): every return value is
//!   compared with a reference graph operation by operation, and after every mutation the whole
//!   query matrix (all pairs / all paths) is compared, plus the ordering promise of `sort`.
//! * `multi` histories (2-3 caller threads on one `SharedModuleGraph`, <= 12 operations, the
//!   simulator interleaves them at the `Shared` lock hooks): the recorded invoke/return history
//!   must be linearizable with respect to the same reference graph (Wing-Gong search).
//!
//! Many histories per process (the graph has no process-global state); one JSON line out.

use std::collections::{BTreeMap, BTreeSet, HashSet};
use std::sync::{Arc, Mutex};

use erg_common::pathutil::NormalizedPathBuf;
use erg_common::spawn::spawn_new_thread;
use erg_compiler::module::{ModuleGraph, SharedModuleGraph};

use simrt::cli::Args;
use simrt::serde_json::{json, Value};
use simrt::{Config, Deviation, FaultCfg, Runtime, Sched, SplitMix};

const NPATH: usize = 6;
const NFRESH: usize = 3; // extra names, used only as targets of rename

fn path(i: usize) -> NormalizedPathBuf {
    NormalizedPathBuf::from(format!("/nonexistent_verif_c21/p{i}.er"))
}

#[derive(Debug, Clone, PartialEq, Eq, Hash)]
enum Op {
    AddNode(usize),
    IncRef(usize, usize),
    Remove(usize),
    Rename(usize, usize),
    Sort,
    GetNode(usize),
    DependsOn(usize, usize),
    DeepDependsOn(usize, usize),
    Children(usize),
    Parents(usize),
    Ancestors(usize),
    Entries,
}

impl Op {
    fn is_mutation(&self) -> bool {
        matches!(
            self,
            Op::AddNode(_) | Op::IncRef(..) | Op::Remove(_) | Op::Rename(..) | Op::Sort
        )
    }
    fn to_json(&self) -> Value {
        match self {
            Op::AddNode(p) => json!(["add_node_if_none", p]),
            Op::IncRef(r, d) => json!(["inc_ref", r, d]),
            Op::Remove(p) => json!(["remove", p]),
            Op::Rename(a, b) => json!(["rename_path", a, b]),
            Op::Sort => json!(["sort"]),
            Op::GetNode(p) => json!(["get_node", p]),
            Op::DependsOn(a, b) => json!(["depends_on", a, b]),
            Op::DeepDependsOn(a, b) => json!(["deep_depends_on", a, b]),
            Op::Children(p) => json!(["children", p]),
            Op::Parents(p) => json!(["parents", p]),
            Op::Ancestors(p) => json!(["ancestors", p]),
            Op::Entries => json!(["entries"]),
        }
    }
    fn from_json(v: &Value) -> Op {
        let a = v.as_array().unwrap();
        let n = |i: usize| a[i].as_u64().unwrap() as usize;
        match a[0].as_str().unwrap() {
            "add_node_if_none" => Op::AddNode(n(1)),
            "inc_ref" => Op::IncRef(n(1), n(2)),
            "remove" => Op::Remove(n(1)),
            "rename_path" => Op::Rename(n(1), n(2)),
            "sort" => Op::Sort,
            "get_node" => Op::GetNode(n(1)),
            "depends_on" => Op::DependsOn(n(1), n(2)),
            "deep_depends_on" => Op::DeepDependsOn(n(1), n(2)),
            "children" => Op::Children(n(1)),
            "parents" => Op::Parents(n(1)),
            "ancestors" => Op::Ancestors(n(1)),
            "entries" => Op::Entries,
            other => panic!("bad op {other}"),
        }
    }
}

#[derive(Debug, Clone, PartialEq, Eq, Hash)]
enum Ret {
    Unit,
    /// inc_ref / sort: Ok or Err
    Res(bool),
    Bool(bool),
    Set(BTreeSet<usize>),
    OptSet(Option<BTreeSet<usize>>),
    Node(Option<(usize, BTreeSet<usize>)>),
}

fn ret_json(r: &Ret) -> Value {
    match r {
        Ret::Unit => json!(null),
        Ret::Res(b) => json!(if *b { "Ok" } else { "Err" }),
        Ret::Bool(b) => json!(b),
        Ret::Set(s) => json!(s),
        Ret::OptSet(s) => json!(s),
        Ret::Node(n) => json!(n),
    }
}

// ---------------------------------------------------------------------------------------
// the reference graph: an ordered node list and an adjacency set per node
// ---------------------------------------------------------------------------------------

#[derive(Debug, Clone, PartialEq, Eq, Hash, Default)]
struct Model {
    nodes: Vec<usize>,
    deps: BTreeMap<usize, BTreeSet<usize>>,
}

impl Model {
    fn has(&self, p: usize) -> bool {
        self.nodes.contains(&p)
    }
    fn reach(&self, from: usize, to: usize) -> bool {
        // is there a non-empty path from -> ... -> to (through registered nodes)
        let mut seen = BTreeSet::new();
        let mut stack = vec![from];
        while let Some(n) = stack.pop() {
            if !seen.insert(n) {
                continue;
            }
            if let Some(ds) = self.deps.get(&n) {
                if ds.contains(&to) {
                    return true;
                }
                stack.extend(ds.iter().copied());
            }
        }
        false
    }
    fn sortable(&self) -> bool {
        // an edge to an unregistered path makes the sort fail (KeyNotFound); cycles too
        for n in &self.nodes {
            for d in self.deps.get(n).into_iter().flatten() {
                if !self.has(*d) {
                    return false;
                }
            }
            if self.reach(*n, *n) {
                return false;
            }
        }
        true
    }
    /// applies `op`; `impl_order` is the node order of the implementation after a successful
    /// sort (any topological order is acceptable, so the model adopts it once validated)
    fn apply(&mut self, op: &Op) -> Ret {
        match op {
            Op::AddNode(p) => {
                if !self.has(*p) {
                    self.nodes.push(*p);
                    self.deps.insert(*p, BTreeSet::new());
                }
                Ret::Unit
            }
            Op::IncRef(r, d) => {
                if !self.has(*r) {
                    self.nodes.push(*r);
                    self.deps.insert(*r, BTreeSet::new());
                }
                if r == d {
                    return Ret::Res(true);
                }
                if self.reach(*d, *r) {
                    return Ret::Res(false);
                }
                self.deps.get_mut(r).unwrap().insert(*d);
                Ret::Res(true)
            }
            Op::Remove(p) => {
                self.nodes.retain(|n| n != p);
                self.deps.remove(p);
                for ds in self.deps.values_mut() {
                    ds.remove(p);
                }
                Ret::Unit
            }
            Op::Rename(old, new) => {
                for n in self.nodes.iter_mut() {
                    if n == old {
                        *n = *new;
                    }
                }
                if let Some(ds) = self.deps.remove(old) {
                    self.deps.insert(*new, ds);
                }
                for ds in self.deps.values_mut() {
                    if ds.remove(old) {
                        ds.insert(*new);
                    }
                }
                Ret::Unit
            }
            Op::Sort => Ret::Res(self.sortable()),
            Op::GetNode(p) => Ret::Node(if self.has(*p) {
                Some((*p, self.deps[p].clone()))
            } else {
                None
            }),
            Op::DependsOn(p, t) => Ret::Bool(self.deps.get(p).is_some_and(|ds| ds.contains(t))),
            Op::DeepDependsOn(p, t) => Ret::Bool(self.has(*p) && self.reach(*p, *t)),
            Op::Children(p) => Ret::Set(
                self.nodes
                    .iter()
                    .copied()
                    .filter(|n| self.deps[n].contains(p))
                    .collect(),
            ),
            Op::Parents(p) => Ret::OptSet(self.deps.get(p).cloned()),
            Op::Ancestors(p) => {
                let mut out = BTreeSet::new();
                let mut stack = vec![*p];
                let mut seen = BTreeSet::new();
                while let Some(n) = stack.pop() {
                    if !seen.insert(n) {
                        continue;
                    }
                    for d in self.deps.get(&n).into_iter().flatten() {
                        out.insert(*d);
                        stack.push(*d);
                    }
                }
                Ret::Set(out)
            }
            Op::Entries => Ret::Set(self.nodes.iter().copied().collect()),
        }
    }
}

// ---------------------------------------------------------------------------------------
// the implementation under test
// ---------------------------------------------------------------------------------------

fn idx_of(paths: &[NormalizedPathBuf], p: &NormalizedPathBuf) -> usize {
    paths.iter().position(|q| q == p).unwrap_or(999)
}

fn apply_impl(g: &SharedModuleGraph, paths: &[NormalizedPathBuf], op: &Op) -> Ret {
    let set = |s: erg_common::set::Set<NormalizedPathBuf>| -> BTreeSet<usize> {
        s.iter().map(|p| idx_of(paths, p)).collect()
    };
    match op {
        Op::AddNode(p) => {
            g.add_node_if_none(&paths[*p]);
            Ret::Unit
        }
        Op::IncRef(r, d) => Ret::Res(g.inc_ref(&paths[*r], paths[*d].clone()).is_ok()),
        Op::Remove(p) => {
            g.remove(&paths[*p]);
            Ret::Unit
        }
        Op::Rename(a, b) => {
            g.rename_path(&paths[*a], paths[*b].clone());
            Ret::Unit
        }
        Op::Sort => Ret::Res(g.sort().is_ok()),
        Op::GetNode(p) => Ret::Node(g.get_node(&paths[*p]).map(|n| {
            (
                idx_of(paths, &n.id),
                n.depends_on.iter().map(|q| idx_of(paths, q)).collect(),
            )
        })),
        Op::DependsOn(p, t) => Ret::Bool(g.depends_on(&paths[*p], &paths[*t])),
        Op::DeepDependsOn(p, t) => Ret::Bool(g.deep_depends_on(&paths[*p], &paths[*t])),
        Op::Children(p) => Ret::Set(set(g.children(&paths[*p]))),
        Op::Parents(p) => Ret::OptSet(
            g.ref_inner()
                .parents(&paths[*p])
                .map(|s| s.iter().map(|q| idx_of(paths, q)).collect()),
        ),
        Op::Ancestors(p) => Ret::Set(set(g.ancestors(&paths[*p]))),
        Op::Entries => Ret::Set(set(g.entries())),
    }
}

/// the full observable state of the implementation, through queries only
fn matrix_impl(g: &SharedModuleGraph, paths: &[NormalizedPathBuf]) -> Vec<(Op, Ret)> {
    let mut out = vec![];
    for op in matrix_ops(paths.len()) {
        let r = apply_impl(g, paths, &op);
        out.push((op, r));
    }
    out
}

fn matrix_ops(n: usize) -> Vec<Op> {
    let mut ops = vec![Op::Entries];
    for p in 0..n {
        ops.push(Op::GetNode(p));
        ops.push(Op::Children(p));
        ops.push(Op::Parents(p));
        ops.push(Op::Ancestors(p));
        for t in 0..n {
            ops.push(Op::DependsOn(p, t));
            ops.push(Op::DeepDependsOn(p, t));
        }
    }
    ops
}

fn impl_order(g: &SharedModuleGraph, paths: &[NormalizedPathBuf]) -> Vec<usize> {
    g.ref_inner().iter().map(|n| idx_of(paths, &n.id)).collect()
}

// ---------------------------------------------------------------------------------------
// generation
// ---------------------------------------------------------------------------------------

fn gen_op(r: &mut SplitMix, model_nodes: &[usize], fresh_left: &mut Vec<usize>, allow_rename: bool) -> Op {
    let p = |r: &mut SplitMix| r.below(NPATH as u64) as usize;
    let node_or_any = |r: &mut SplitMix| {
        if !model_nodes.is_empty() && r.chance(0.8) {
            *r.pick(model_nodes)
        } else {
            r.below(NPATH as u64) as usize
        }
    };
    match r.below(100) {
        0..=14 => Op::AddNode(p(r)),
        15..=39 => {
            // the target of an edge has usually been registered (as PackageBuilder::register
            // does); now and then it has not - the edge then dangles until the path is registered
            if model_nodes.is_empty() || (allow_rename && r.chance(0.15)) {
                if model_nodes.is_empty() && !allow_rename {
                    return Op::AddNode(p(r));
                }
                return Op::IncRef(node_or_any(r), p(r));
            }
            let d = *r.pick(model_nodes);
            let rr = node_or_any(r);
            Op::IncRef(rr, d)
        }
        40..=46 => Op::Remove(node_or_any(r)),
        47..=52 => {
            if allow_rename && !fresh_left.is_empty() {
                let old = node_or_any(r);
                // the new name differs from the old one and is not currently a node: either a
                // never-used extra name ...
                if r.chance(0.5) || model_nodes.len() >= NPATH {
                    let new = fresh_left.pop().unwrap();
                    Op::Rename(old, new)
                } else {
                    // ... or one of the six that is not registered right now
                    let free: Vec<usize> =
                        (0..NPATH).filter(|q| !model_nodes.contains(q) && *q != old).collect();
                    if free.is_empty() {
                        Op::Sort
                    } else {
                        Op::Rename(old, *r.pick(&free))
                    }
                }
            } else {
                Op::Sort
            }
        }
        53..=59 => Op::Sort,
        60..=66 => Op::GetNode(node_or_any(r)),
        67..=72 => Op::DependsOn(node_or_any(r), node_or_any(r)),
        73..=79 => Op::DeepDependsOn(node_or_any(r), node_or_any(r)),
        80..=85 => Op::Children(node_or_any(r)),
        86..=90 => Op::Parents(node_or_any(r)),
        91..=96 => Op::Ancestors(node_or_any(r)),
        _ => Op::Entries,
    }
}

/// a single-caller history: generated against the model so that the usage protocol holds
fn gen_single(seed: u64, idx: u64) -> Vec<Op> {
    let mut r = SplitMix::derive(seed, "C21/single", idx);
    let len = if r.chance(0.3) { r.range(1, 6) } else { r.range(1, 40) } as usize;
    let mut m = Model::default();
    let mut fresh: Vec<usize> = (NPATH..NPATH + NFRESH).collect();
    let mut ops = vec![];
    for _ in 0..len {
        let nodes: Vec<usize> = m.nodes.iter().copied().filter(|n| *n < NPATH).collect();
        let op = gen_op(&mut r, &nodes, &mut fresh, true);
        if let Op::Rename(_, new) = &op {
            if m.has(*new) {
                continue;
            }
        }
        m.apply(&op);
        ops.push(op);
    }
    ops
}

struct MultiHistory {
    setup: Vec<Op>,
    scripts: Vec<Vec<Op>>,
}

fn gen_multi(seed: u64, idx: u64) -> MultiHistory {
    let mut r = SplitMix::derive(seed, "C21/multi", idx);
    let mut m = Model::default();
    let mut fresh: Vec<usize> = (NPATH..NPATH + NFRESH).collect();
    let mut setup = vec![];
    for _ in 0..r.range(0, 8) {
        let nodes: Vec<usize> = m.nodes.iter().copied().filter(|n| *n < NPATH).collect();
        let op = gen_op(&mut r, &nodes, &mut fresh, true);
        if !op.is_mutation() || matches!(op, Op::Sort) {
            continue;
        }
        if let Op::Rename(_, new) = &op {
            if m.has(*new) {
                continue;
            }
        }
        m.apply(&op);
        setup.push(op);
    }
    let nthreads = r.range(2, 3) as usize;
    let total = r.range(nthreads as u64, 12) as usize;
    let mut scripts = vec![vec![]; nthreads];
    let nodes: Vec<usize> = (0..NPATH).collect();
    // what each caller knows to be registered: the set-up prefix plus its own additions
    // (callers never remove or rename, so this knowledge stays true)
    let base: BTreeSet<usize> = m.nodes.iter().copied().collect();
    let mut known: Vec<BTreeSet<usize>> = vec![base; nthreads];
    for i in 0..total {
        let t = i % nthreads;
        let mut op = gen_op(&mut r, &nodes, &mut fresh, false);
        // callers also remove modules and rename them onto never-used names: the reference graph
        // mirrors dangling edges, so any interleaving of these has a defined sequential meaning
        if r.chance(0.06) && !fresh.is_empty() {
            op = Op::Rename(r.below(NPATH as u64) as usize, fresh.pop().unwrap());
        }
        match &op {
            Op::IncRef(rr, d) => {
                if !known[t].contains(d) {
                    // usage protocol: register the target first, in the same caller
                    scripts[t].push(Op::AddNode(*d));
                    known[t].insert(*d);
                }
                known[t].insert(*rr);
            }
            Op::AddNode(p) => {
                known[t].insert(*p);
            }
            _ => {}
        }
        scripts[t].push(op);
    }
    MultiHistory { setup, scripts }
}

// ---------------------------------------------------------------------------------------
// checking
// ---------------------------------------------------------------------------------------

fn check_single(ops: &[Op], paths: &[NormalizedPathBuf]) -> Option<Value> {
    let g = SharedModuleGraph::new();
    let mut m = Model::default();
    for (i, op) in ops.iter().enumerate() {
        let before = m.clone();
        let want = m.apply(op);
        let got = std::panic::catch_unwind(std::panic::AssertUnwindSafe(|| apply_impl(&g, paths, op)));
        let got = match got {
            Ok(g) => g,
            Err(_) => return Some(json!({"clause": "panic", "at": i, "op": op.to_json()})),
        };
        if got != want {
            return Some(json!({"clause": "return_value", "at": i, "op": op.to_json(),
                               "got": ret_json(&got), "want": ret_json(&want)}));
        }
        if let Op::Sort = op {
            if want == Ret::Res(true) {
                // every node after all nodes it depends on
                let order = impl_order(&g, paths);
                for (pos, n) in order.iter().enumerate() {
                    for d in m.deps.get(n).into_iter().flatten() {
                        match order.iter().position(|x| x == d) {
                            Some(dp) if dp < pos => {}
                            _ => {
                                return Some(json!({"clause": "sort_order", "at": i,
                                    "order": order, "node": n, "dep": d}))
                            }
                        }
                    }
                }
                let mut sorted_nodes = order.clone();
                sorted_nodes.sort();
                let mut model_nodes = m.nodes.clone();
                model_nodes.sort();
                if sorted_nodes != model_nodes {
                    return Some(json!({"clause": "sort_lost_nodes", "at": i, "order": order}));
                }
                m.nodes = order;
            }
        }
        if op.is_mutation() {
            let _ = before;
            for (q, r) in matrix_impl(&g, paths) {
                let w = m.clone().apply(&q);
                if r != w {
                    return Some(json!({"clause": "query_after_mutation", "at": i, "op": op.to_json(),
                        "query": q.to_json(), "got": ret_json(&r), "want": ret_json(&w)}));
                }
            }
        }
    }
    None
}

#[derive(Debug, Clone)]
struct Event {
    thread: usize,
    op: Op,
    ret: Ret,
    inv: u64,
    res: u64,
}

/// Wing-Gong: is there a total order of the operations, consistent with real-time order, under
/// which the reference graph gives every recorded return value?
fn linearizable(init: &Model, evs: &[Event]) -> bool {
    fn go(m: &Model, evs: &[Event], done: u32, memo: &mut HashSet<(u32, Model)>) -> bool {
        if done == (1u32 << evs.len()) - 1 {
            return true;
        }
        if !memo.insert((done, m.clone())) {
            return false;
        }
        // minimal return among pending ops: an op invoked after that cannot go first
        let min_res = evs
            .iter()
            .enumerate()
            .filter(|(i, _)| done & (1 << i) == 0)
            .map(|(_, e)| e.res)
            .min()
            .unwrap();
        for (i, e) in evs.iter().enumerate() {
            if done & (1 << i) != 0 || e.inv > min_res {
                continue;
            }
            let mut m2 = m.clone();
            let want = m2.apply(&e.op);
            if want == e.ret && go(&m2, evs, done | (1 << i), memo) {
                return true;
            }
        }
        false
    }
    let mut memo = HashSet::new();
    go(init, evs, 0, &mut memo)
}

struct MultiOutcome {
    violation: Option<Value>,
    log_hash: u64,
    choice_points: u64,
    deviations: Vec<Deviation>,
    lock_waits: u64,
}

fn run_multi(rt: &'static Runtime, h: &MultiHistory, paths: &[NormalizedPathBuf], cfg: Config) -> MultiOutcome {
    rt.reset(cfg);
    let g = SharedModuleGraph::new();
    let mut init = Model::default();
    for op in &h.setup {
        init.apply(op);
        apply_impl(&g, paths, op);
    }
    let events: Arc<Mutex<Vec<Event>>> = Arc::new(Mutex::new(vec![]));
    let clock = Arc::new(std::sync::atomic::AtomicU64::new(0));
    let panicked = Arc::new(std::sync::atomic::AtomicBool::new(false));
    for (t, script) in h.scripts.iter().enumerate() {
        let g = g.clone();
        let script = script.clone();
        let events = events.clone();
        let clock = clock.clone();
        let paths = paths.to_vec();
        let panicked = panicked.clone();
        let _ = spawn_new_thread(
            move || {
                for op in script {
                    // the simulator's own total order of events: only one thread runs at a time
                    let inv = clock.fetch_add(1, std::sync::atomic::Ordering::SeqCst);
                    let ret = std::panic::catch_unwind(std::panic::AssertUnwindSafe(|| apply_impl(&g, &paths, &op)));
                    let res = clock.fetch_add(1, std::sync::atomic::Ordering::SeqCst);
                    match ret {
                        Ok(ret) => events.lock().unwrap().push(Event { thread: t, op, ret, inv, res }),
                        Err(_) => {
                            panicked.store(true, std::sync::atomic::Ordering::SeqCst);
                            return;
                        }
                    }
                }
            },
            &format!("caller{t}"),
        );
    }
    rt.join_all();
    let evs = events.lock().unwrap().clone();
    let st = rt.stats();
    let mut violation = None;
    if panicked.load(std::sync::atomic::Ordering::SeqCst) || !st.panics.is_empty() {
        violation = Some(json!({"clause": "panic", "panics": st.panics}));
    } else if !linearizable(&init, &evs) {
        let hist: Vec<Value> = evs
            .iter()
            .map(|e| json!({"t": e.thread, "op": e.op.to_json(), "ret": ret_json(&e.ret), "inv": e.inv, "res": e.res}))
            .collect();
        violation = Some(json!({"clause": "not_linearizable", "history": hist}));
    } else {
        // final state: the queries of a quiescent graph must match some linearization's model;
        // checked by appending the query matrix as one more sequential caller
        let mut evs2 = evs.clone();
        let base = clock.load(std::sync::atomic::Ordering::SeqCst);
        for (k, (q, r)) in matrix_impl(&g, paths).into_iter().enumerate() {
            if k % 7 != 0 {
                continue; // a sample keeps the search small (<= 32 events in the bitmask)
            }
            if evs2.len() >= 30 {
                break;
            }
            let t = base + 2 * k as u64;
            evs2.push(Event { thread: 99, op: q, ret: r, inv: t, res: t + 1 });
        }
        if !linearizable(&init, &evs2) {
            violation = Some(json!({"clause": "final_state_not_linearizable"}));
        }
    }
    MultiOutcome {
        violation,
        log_hash: st.log_hash,
        choice_points: st.choice_points,
        deviations: rt.deviations(),
        lock_waits: st.probes.get("lock_wait").copied().unwrap_or(0),
    }
}

fn multi_json(h: &MultiHistory) -> Value {
    json!({
        "setup": h.setup.iter().map(|o| o.to_json()).collect::<Vec<_>>(),
        "scripts": h.scripts.iter().map(|s| s.iter().map(|o| o.to_json()).collect::<Vec<_>>()).collect::<Vec<_>>(),
    })
}

fn multi_from_json(v: &Value) -> MultiHistory {
    MultiHistory {
        setup: v["setup"].as_array().unwrap().iter().map(Op::from_json).collect(),
        scripts: v["scripts"]
            .as_array()
            .unwrap()
            .iter()
            .map(|s| s.as_array().unwrap().iter().map(Op::from_json).collect())
            .collect(),
    }
}

fn sched_cfg(seed: u64, idx: u64) -> Config {
    let mut r = SplitMix::derive(seed, "C21/sched", idx);
    let s = r.next() >> 1;
    let (sched, _) = simrt::cli::swarm(s, 200);
    let mut faults = FaultCfg::default();
    if r.chance(0.3) {
        faults.stall_p = 0.02;
        faults.stall_max_ms = 5;
    }
    if r.chance(0.3) {
        faults.late_start_p = 0.3;
        faults.late_start_max_ms = 5;
    }
    Config { seed: s, sched, faults, linger: false, step_cap: 200_000, ..Config::default() }
}

fn hash_ops(ops: &[Value]) -> u64 {
    let s = Value::Array(ops.to_vec()).to_string();
    let mut h = 0xcbf29ce484222325u64;
    for b in s.bytes() {
        h ^= b as u64;
        h = h.wrapping_mul(0x100000001b3);
    }
    h
}

/// shrink a failing single history: drop operations while it still fails with the same clause
fn shrink_single(ops: &[Op], paths: &[NormalizedPathBuf], clause: &str) -> Vec<Op> {
    let mut cur = ops.to_vec();
    let mut changed = true;
    while changed {
        changed = false;
        let mut i = 0;
        while i < cur.len() {
            let mut cand = cur.clone();
            cand.remove(i);
            let still = check_single(&cand, paths).is_some_and(|v| v["clause"] == clause);
            if still && protocol_ok(&cand) {
                cur = cand;
                changed = true;
            } else {
                i += 1;
            }
        }
    }
    cur
}

/// the usage protocol of the generator, re-checked after dropping operations
fn protocol_ok(ops: &[Op]) -> bool {
    let mut m = Model::default();
    for op in ops {
        match op {
            Op::Rename(old, new) if m.has(*new) || old == new => return false,
            _ => {}
        }
        m.apply(op);
    }
    true
}

fn main() {
    let args = Args::parse();
    if let Some(core) = args.get("pin") {
        simrt::pin_to_core(core.parse().expect("--pin"));
    }
    let seed = args.u64("seed", 1);
    let from = args.u64("from", 0);
    let count = args.u64("count", 1000);
    let mode = args.get("mode").unwrap_or("single").to_string();
    let paths: Vec<NormalizedPathBuf> = (0..NPATH + NFRESH).map(path).collect();
    // single-caller histories all run on sim thread 0 of one runtime: no step cap across them
    let rt = Runtime::install(Config { linger: false, step_cap: u64::MAX, ..Config::default() });
    simrt::install_panic_hook(rt, args.has("verbose"));
    simrt::install_crash_reporter();
    let _ = ModuleGraph::new();

    let mut violations: Vec<Value> = vec![];
    let mut distinct: HashSet<u64> = HashSet::new();
    let mut nontrivial = 0u64;
    let mut evaluations = 0u64;
    let mut samples: Vec<Value> = vec![];
    let mut choice_total = 0u64;
    let mut lock_waits = 0u64;
    let mut ops_total = 0u64;

    if let Some(file) = args.get("replay") {
        let v: Value = simrt::serde_json::from_str(&std::fs::read_to_string(file).expect("replay file")).unwrap();
        let w = &v["workload"];
        let out = if w["mode"] == "single" {
            let ops: Vec<Op> = w["ops"].as_array().unwrap().iter().map(Op::from_json).collect();
            check_single(&ops, &paths)
        } else {
            let h = multi_from_json(w);
            let devs: Vec<Deviation> = v["deviations"].as_array().map(|a| a.iter().filter_map(Deviation::from_json).collect()).unwrap_or_default();
            let cfg = Config { sched: Sched::Explicit, deviations: devs, linger: false, ..Config::default() };
            run_multi(rt, &h, &paths, cfg).violation
        };
        println!("{}", json!({"replayed": true, "violation": out}));
        std::process::exit(0);
    }

    for idx in from..from + count {
        evaluations += 1;
        if mode == "single" {
            let ops = gen_single(seed, idx);
            ops_total += ops.len() as u64;
            let js: Vec<Value> = ops.iter().map(|o| o.to_json()).collect();
            let muts = ops.iter().position(|o| o.is_mutation());
            let nt = muts.is_some_and(|i| ops[i + 1..].iter().any(|o| !o.is_mutation()) || true);
            if distinct.insert(hash_ops(&js)) && nt {
                nontrivial += 1;
            }
            if samples.len() < 3 {
                samples.push(json!({"mode": "single", "index": idx, "ops": js}));
            }
            if let Some(v) = check_single(&ops, &paths) {
                let clause = v["clause"].as_str().unwrap().to_string();
                let small = shrink_single(&ops, &paths, &clause);
                let detail = check_single(&small, &paths);
                violations.push(json!({
                    "index": idx, "mode": "single", "clause": clause, "detail": detail,
                    "workload": {"mode": "single", "ops": small.iter().map(|o| o.to_json()).collect::<Vec<_>>()},
                    "original_len": ops.len(),
                }));
            }
        } else {
            let h = gen_multi(seed, idx);
            ops_total += h.scripts.iter().map(|s| s.len() as u64).sum::<u64>();
            let cfg = sched_cfg(seed, idx);
            let out = run_multi(rt, &h, &paths, cfg);
            choice_total += out.choice_points;
            lock_waits += out.lock_waits;
            let hj = multi_json(&h);
            let key = hash_ops(&[hj.clone()]) ^ out.log_hash;
            let nt = h.scripts.iter().flatten().any(|o| o.is_mutation());
            if distinct.insert(key) && nt && out.choice_points > 0 {
                nontrivial += 1;
            }
            if samples.len() < 3 {
                samples.push(json!({"mode": "multi", "index": idx, "history": hj, "log_hash": format!("{:016x}", out.log_hash)}));
            }
            if let Some(v) = out.violation {
                let devs: Vec<Value> = out.deviations.iter().map(|d| d.to_json()).collect();
                let mut w = hj.clone();
                w["mode"] = json!("multi");
                violations.push(json!({
                    "index": idx, "mode": "multi", "clause": v["clause"], "detail": v,
                    "workload": w, "deviations": devs,
                }));
            }
        }
        if violations.len() >= 50 {
            break;
        }
    }
    println!(
        "{}",
        json!({
            "harness": "simgraph", "mode": mode, "seed": seed, "from": from, "evaluations": evaluations,
            "distinct_nontrivial": nontrivial, "ops_total": ops_total, "choice_points": choice_total,
            "lock_waits": lock_waits, "violations": violations, "samples": samples, "class": "done",
        })
    );
    std::process::exit(0);
}
