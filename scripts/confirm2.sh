#!/bin/bash
# confirm2.sh <id> <worktree> <patch> <kind> <demo...>
#   kind=bin  : demo command gets the erg binary path appended   (e.g. "bash /tmp/out/demo1.sh")
#   kind=test : <demo file> <dest rel path> <cargo test args>
#   kind=cmd  : command run as is inside the worktree
ID=$1; WT=$2; PATCH=$3; KIND=$4; shift 4
LOG=/tmp/confirm_$ID.log; : > $LOG
cd "$WT" || exit 2
run_demo() {
  case $KIND in
    bin) bash -c "$1 $WT/target/debug/erg $2" ;;
    test) cp "$1" "$2"; bash -c "cargo test --offline -j 8 $3 2>&1 | tail -15"; rc=${PIPESTATUS[0]}; rm -f "$2"; return $rc ;;
    cmd) bash -c "$1" ;;
  esac
}
git checkout -q -- . ; git clean -qfd -- crates src tests 2>/dev/null
git apply "$PATCH" || { echo "PATCH DOES NOT APPLY" >> $LOG; exit 2; }
echo "== build with patch" >> $LOG; cargo build --workspace --offline -j 8 2>&1 | tail -1 >> $LOG
echo "== existing tests with patch" >> $LOG
cargo nextest run --workspace --no-fail-fast --test-threads 5 --offline --retries 4 2>&1 | grep -E "Summary|^\s+FAIL|FLAKY" | tail -6 >> $LOG
echo "== demo with patch" >> $LOG; run_demo "$@" > /tmp/confirm_${ID}_with.txt 2>&1; echo "rc_with_patch=$?" >> $LOG; tail -4 /tmp/confirm_${ID}_with.txt >> $LOG
git checkout -q -- .
echo "== build without patch" >> $LOG; cargo build --workspace --offline -j 8 2>&1 | tail -1 >> $LOG
echo "== demo without patch" >> $LOG; run_demo "$@" > /tmp/confirm_${ID}_without.txt 2>&1; echo "rc_without_patch=$?" >> $LOG; tail -4 /tmp/confirm_${ID}_without.txt >> $LOG
echo "== done" >> $LOG
