#!/bin/bash
# quick tier of every check under other seeds: the unchanged tree must stay quiet
for s in "$@"; do
  for c in C15 C19 C20 C21 C25 C28 C29; do
    echo "##### seed=$s $c"; VERIF_SEED=$s ./check $c --tier quick 2>&1 | grep -E "^VIOLATION|^KNOWN-FINDING|HARNESS|^\[C|rc=" | cut -c1-260; echo "exit=${PIPESTATUS[0]}"
  done
done
