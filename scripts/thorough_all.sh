#!/bin/bash
# thorough tier of every check (or of the checks named as arguments), one after the other
# (background use: vp run -- ./scripts/thorough_all.sh [C28 C29 ...])
./check setup 2>&1 | tail -2
for c in ${@:-C21 C25 C15 C28 C29 C19 C20}; do
  echo "##### $c thorough"; /usr/bin/time -f "%e s" ./check $c --tier thorough 2>&1 | grep -E "^VIOLATION|^KNOWN-FINDING|HARNESS|^\[C| s$|^\[build\]" | cut -c1-220; echo "exit=${PIPESTATUS[0]}"
  python3 -c "
import json; d=json.load(open('evidence/$c.json')); c=d['coverage']; print('   evaluations', c['evaluations'], 'distinct', c['distinct_nontrivial'], 'wall', d['wall_s'], 'violations', d['violations'])"
done
