#!/bin/bash
# try_seeded.sh <prop> <patch> [tier]: apply a deliberately broken tree to /repo, run the check, undo
P=$1; PATCH=$2; TIER=${3:-quick}
cd /verif
git -C /repo apply "$PATCH" || { echo "PATCH DOES NOT APPLY: $PATCH"; exit 2; }
echo "##### $P $PATCH ($TIER)"
./check $P --tier $TIER > /tmp/try_seeded_out.txt 2>&1; rc=$?
grep -E "^VIOLATION|^KNOWN-FINDING|HARNESS|^\[C" /tmp/try_seeded_out.txt | cut -c1-300 | head -12
grep -A1 "^VIOLATION" /tmp/try_seeded_out.txt | grep -v "^VIOLATION\|^--" | cut -c1-400 | head -4
echo "exit=$rc"
git -C /repo checkout -- .
