#!/bin/bash
# confirm a deliberately broken tree in a scratch worktree:
#   confirm_seeded.sh <worktree> <patch.diff> <demo file> <where to put it, relative> <command that runs the demo>
# 1. unchanged tree: the demonstration passes  2. with the patch: the workspace builds, the existing
# tests pass (retries absorb the timing-sensitive els tests on a loaded machine), the demonstration fails
WT=$1; PATCH=$2; DEMO=$3; DEST=$4; shift 4; CMD="$*"
cd "$WT" || exit 2
git checkout -q -- . ; rm -f "$DEST"
[ -n "$DEMO" ] && cp "$DEMO" "$DEST"
echo "== baseline demo"; bash -c "$CMD" > /tmp/confirm_demo_base.log 2>&1; echo "demo_without_patch_rc=$?"; tail -3 /tmp/confirm_demo_base.log
git apply "$PATCH" || { echo "PATCH DOES NOT APPLY"; exit 2; }
echo "== build"; cargo build --workspace --offline -j 8 2>&1 | tail -1
echo "== existing tests"; cargo nextest run --workspace --no-fail-fast --test-threads 6 --offline --retries 3 2>&1 | grep -E "Summary|FAIL \[" | head -5
echo "== demo with patch"; bash -c "$CMD" > /tmp/confirm_demo_patch.log 2>&1; echo "demo_with_patch_rc=$?"; tail -3 /tmp/confirm_demo_patch.log
git checkout -q -- . ; [ -n "$DEMO" ] && rm -f "$DEST"
echo "== done"
